SPECIFICATION Spec
CONSTANTS
 NP = 1
 MaxJobs = 3
 VerTable <- MCVerTable
 InitCfgs <- MCInitCfgs
 Reloads <- MCReloads
 MaxReloads = 1
 MaxTicks = 0
 BadKinds <- MCBad
 MaxOps = 4
 Features <- MCFeatures
 Gen = FALSE
CHECK_DEADLOCK FALSE
ACTION_CONSTRAINT EmitEdge

------------------------------ MODULE Sim_Core ------------------------------
(* Script generation: random behaviours of Prunner.tla (tlc -simulate); the      *)
(* controllable steps of each behaviour are printed as one JSON script.          *)
EXTENDS Prunner, Catalog, Json

CONSTANT SimLen

SimVerTable == <<
  MkVer(1, 1, -1, FALSE, 0, FALSE, GSingle, FALSE),   \* 1
  MkVer(1, 2, 1, FALSE, 0, FALSE, GChain, FALSE),     \* 2
  MkVer(1, 1, 0, FALSE, 0, FALSE, GSingle, FALSE),    \* 3
  MkVer(1, 1, 1, TRUE, 0, FALSE, GPar, FALSE),        \* 4
  MkVer(1, 1, 2, FALSE, 2, FALSE, GSingle, FALSE),    \* 5
  MkVer(1, 1, 1, TRUE, 2, FALSE, GChain, FALSE),      \* 6
  MkVer(1, 2, -1, TRUE, 0, FALSE, GFanIn, FALSE),     \* 7
  MkVer(1, 1, -1, FALSE, 0, FALSE, GCycle, TRUE),     \* 8
  MkVer(1, 2, 2, FALSE, 0, TRUE, GFanIn, FALSE),      \* 9  continue after failure
  MkVer(1, 1, -1, FALSE, 0, FALSE, GDiamond, FALSE),  \* 10
  MkVer(1, 2, -1, FALSE, 1, FALSE, GAllowCh, FALSE),  \* 11 delay 1, allow_failure chain
  MkVer(1, 1, 3, FALSE, 0, TRUE, GMixed, FALSE),      \* 12
  MkVer(1, 3, 1, FALSE, 0, FALSE, GEmpty, FALSE),     \* 13
  MkVer(1, 1, -1, FALSE, 0, FALSE, GSelf, TRUE),      \* 14
  MkVer(2, 1, 1, FALSE, 0, FALSE, GChain, FALSE),     \* 15 pipeline 2
  MkVer(2, 2, -1, TRUE, 2, FALSE, GSingle, FALSE),    \* 16
  MkVer(2, 1, -1, FALSE, 0, TRUE, GPar, FALSE)        \* 17
>>
P1 == {1, 2, 3, 4, 5, 6, 7, 8, 9, 10, 11, 12, 13, 14}
P2 == {15, 16, 17}
SimInitCfgs == {<<a, b>> : a \in P1, b \in P2 \cup {0}}
SimReloads == {<<1, v>> : v \in P1 \cup {0}} \cup {<<2, v>> : v \in P2 \cup {0}}
SimBad == {"none", "none", "reserved"}
SimFeatures == {"cancel", "unknowncancel"}

Emit == /\ clock = 0
        /\ PrintT(ToJson([np |-> NP, vers |-> VerTable, steps |-> hist]))
        /\ clock' = 1
        /\ UNCHANGED <<cfgv, epoch, job, stage, sched, running, rctx, cancelPending, waitList, shut, store, logs, persist,
                       nops, nreloads, nticks, runs, stop, ack, last, ev, obs, pre, hist>>

Budget == Len(hist) >= SimLen \/ nops >= MaxOps
SimNext == \/ (clock = 0 /\ ~Budget /\ Next)
           \/ (Budget /\ Emit)
SimSpec == Init /\ [][SimNext]_vars
==============================================================================

------------------------------ MODULE RowsProcs ------------------------------
(* validates the rows recorded from real process trees against the statements of Procs.tla in their concrete form:   *)
(* NoSurvivor  - once the cancelled job is reported finished (plus a grace for scheduling latency) no marked process  *)
(*               of its tasks is alive;  Bounded - it is reported finished within the kill timeout plus latency;     *)
(* the processes of the other job are untouched.                                                                     *)
EXTENDS Integers, Sequences, FiniteSets, TLC, Json
Rows == ndJsonDeserialize("procs_rows.ndjson")
LatencyMs == 1500
VARIABLES kind, l
Init == kind = "procs" /\ l = 1
Next == l < Len(Rows) /\ l' = l + 1 /\ UNCHANGED kind
Spec == Init /\ [][Next]_<<kind, l>>
R == Rows[l]
C20_NoSurvivor == l <= Len(Rows) => (R.started > 0 /\ R.reported /\ R.afterGrace = 0)
\* (stallMs: how late a 5 ms sleeper woke up in the meantime - the scheduling latency the machine showed)
C20_Bounded == l <= Len(Rows) => (R.reported /\ R.elapsedMs <= R.timeoutMs + LatencyMs + 20 * R.stallMs /\ R.canceled)
C20_OthersUntouched == l <= Len(Rows) => R.otherAlive
Alias == [kind |-> kind, line |-> l]
=============================================================================

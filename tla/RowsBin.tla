------------------------------- MODULE RowsBin -------------------------------
(* facts recorded from the real prunner binary (built from /repo), validated against the scenario table:            *)
(* every fact a scenario requires must have been recorded, and must hold                                            *)
EXTENDS Integers, Sequences, FiniteSets, TLC, Json
Rows == ndJsonDeserialize("bin_rows.ndjson")
\* scenario -> facts that must be recorded for it (App.tla's statements in their concrete form, plus C14/C16/C17/C18 at process level)
Required == [
  sigint |-> {"exit-within-deadline", "exit-code-0", "schedule-during-shutdown-503", "running-job-ran-to-its-end", "waiting-job-canceled",
              "store-all-terminal", "store-equals-last-report", "no-task-process-left"},
  sigterm |-> {"exit-within-kill-timeout", "running-job-canceled", "store-all-terminal", "no-task-process-left"},
  restart |-> {"all-terminal-after-restart", "pipelines-schedulable-not-running", "same-job-set", "finished-jobs-identical", "second-restart-identical"},
  env |-> {"task-level-wins", "pipeline-level-over-process", "process-level-visible", "undefined-is-unset", "dotenv-file-loaded", "own-variables-rendered"},
  auth |-> {"no-token-401-everywhere", "wrong-secret-401-everywhere", "valid-token-accepted", "no-effect-without-token", "profiling-absent-by-default", "profiling-open-when-enabled"},
  reload |-> {"edit-detected-on-sigusr1", "running-job-keeps-old-script", "waiting-job-keeps-old-script", "new-job-uses-new-script", "empty-value-env-rename-detected", "unchanged-files-not-reloaded"},
  \* reloads that change exactly one field: each takes effect for the jobs scheduled afterwards
  reload_fields |-> {"fail-fast-stops-sibling", "continue-flag-alone-takes-effect", "appended-script-line-alone-takes-effect", "added-task-alone-takes-effect"}
]
Scenarios == DOMAIN Required
VARIABLE l
Init == l = 1
Next == l < Len(Rows) /\ l' = l + 1
Spec == Init /\ [][Next]_l
R == Rows[l]
FactHolds(p) == (l <= Len(Rows) /\ R.prop = p) => R.ok
C08_Binary == FactHolds("C08")
C10_Binary == FactHolds("C10")
C11_Binary == FactHolds("C11")
C14_Binary == FactHolds("C14")
C16_Binary == FactHolds("C16")
C17_Binary == FactHolds("C17")
C18_Binary == FactHolds("C18")
C20_Binary == FactHolds("C20")
ASSUME \A s \in Scenarios : \A f \in Required[s] : \E i \in 1 .. Len(Rows) : Rows[i].scenario = s /\ Rows[i].fact = f
Alias == [line |-> l]
=============================================================================

----------------------------- MODULE DefsTrace -----------------------------
(***************************************************************************)
(* Validates rows recorded from the real code against Defs.tla:             *)
(*  load rows: [case, err, pipes]  from definition.LoadRecursively          *)
(*  eq rows:   [kind, field, a, b, eq, eqRev] from PipelinesDef.Equals on    *)
(*             reflection-generated single-field variants and deep copies    *)
(***************************************************************************)
EXTENDS Defs, Json

LoadRows == ndJsonDeserialize("defs_load_rows.ndjson")
EqRows == ndJsonDeserialize("defs_eq_rows.ndjson")

VARIABLES kind, l

LoadRowOK(r) ==
  LET e == Expected(r.files) IN
  /\ r.files \in Cases
  /\ r.err = e.err
  /\ ~e.err => {r.pipes[i] : i \in 1 .. Len(r.pipes)} = e.pipes /\ Len(r.pipes) = Cardinality(e.pipes)
  \* the same files created in another order / nested differently load to the same result
  /\ r.err2 = r.err /\ r.pipes2 = r.pipes

\* equality is structural equality of the (normalised) configuration, symmetric
EqRowOK(r) ==
  /\ r.eq = (r.a = r.b)
  /\ r.eqRev = r.eq
  /\ r.kind = "variant" => r.a # r.b
  /\ r.kind = "copy" => r.a = r.b

Init == kind \in {"load", "eq"} /\ l = 1
Next == /\ l < (IF kind = "load" THEN Len(LoadRows) ELSE Len(EqRows))
        /\ l' = l + 1 /\ UNCHANGED kind
Spec == Init /\ [][Next]_<<kind, l>>

C17_LoadAsSpecified == kind = "load" => (l <= Len(LoadRows) => LoadRowOK(LoadRows[l]))
C17_EqualsIsStructural == kind = "eq" => (l <= Len(EqRows) => EqRowOK(EqRows[l]))
\* every case of the model was executed
C17_AllCasesCovered == Cardinality({LoadRows[i].files : i \in 1 .. Len(LoadRows)}) = Cardinality(Cases)

Alias == [kind |-> kind, line |-> l]
=============================================================================

------------------------------ MODULE RowsLogs ------------------------------
EXTENDS Logs, Json
Rows == ndJsonDeserialize("logs_rows.ndjson")
Extra == ndJsonDeserialize("logs_extra_rows.ndjson")
VARIABLES kind, l
Init == kind \in {"logs", "extra"} /\ l = 1
Next == l < (IF kind = "logs" THEN Len(Rows) ELSE Len(Extra)) /\ l' = l + 1 /\ UNCHANGED kind
Spec == Init /\ [][Next]_<<kind, l>>
C19_CapturedExactly == (kind = "logs" /\ l <= Len(Rows)) => RowOK(Rows[l])
\* extra rows [what, ok]: unknown task refused, other spellings of the job id, streams of a finished job stable
C19_ApiRules == (kind = "extra" /\ l <= Len(Extra)) => Extra[l].ok
ASSUME {Rows[i].shape : i \in 1 .. Len(Rows)} = Shapes
Alias == [kind |-> kind, line |-> l]
=============================================================================

--------------------------- MODULE LockDiscipline ---------------------------
(***************************************************************************)
(* C13: the locking discipline of PipelineRunner.mx (sync.RWMutex).         *)
(* Threads acquire the lock for reading or writing, access the guarded      *)
(* state (read or mutate) and release.  If every mutation happens under the *)
(* write lock and every read under some lock (Disciplined = TRUE), no       *)
(* mutation is ever concurrent with another access.  With Disciplined =     *)
(* FALSE (a mutation under the read lock, as SaveToStore did) TLC finds the *)
(* conflicting state.  The rows recorded by the lock-mode probes of the     *)
(* real code are validated against the discipline (RowsLock.tla).           *)
(***************************************************************************)
EXTENDS Integers, FiniteSets, TLC
CONSTANTS Threads, Disciplined
VARIABLES held,    \* [thread -> "none" | "R" | "W"]
          acc      \* [thread -> "none" | "read" | "mutate"]   access in progress
vars == <<held, acc>>
Init == held = [t \in Threads |-> "none"] /\ acc = [t \in Threads |-> "none"]
Writer == {t \in Threads : held[t] = "W"}
Readers == {t \in Threads : held[t] = "R"}
RLock(t) == held[t] = "none" /\ Writer = {} /\ held' = [held EXCEPT ![t] = "R"] /\ UNCHANGED acc
WLock(t) == held[t] = "none" /\ Writer = {} /\ Readers = {} /\ held' = [held EXCEPT ![t] = "W"] /\ UNCHANGED acc
Unlock(t) == held[t] # "none" /\ acc[t] = "none" /\ held' = [held EXCEPT ![t] = "none"] /\ UNCHANGED acc
BeginRead(t) == acc[t] = "none" /\ held[t] \in {"R", "W"} /\ acc' = [acc EXCEPT ![t] = "read"] /\ UNCHANGED held
BeginMutate(t) == /\ acc[t] = "none"
                  /\ IF Disciplined THEN held[t] = "W" ELSE held[t] \in {"R", "W"}
                  /\ acc' = [acc EXCEPT ![t] = "mutate"] /\ UNCHANGED held
End(t) == acc[t] # "none" /\ acc' = [acc EXCEPT ![t] = "none"] /\ UNCHANGED held
Next == \E t \in Threads : RLock(t) \/ WLock(t) \/ Unlock(t) \/ BeginRead(t) \/ BeginMutate(t) \/ End(t)
Spec == Init /\ [][Next]_vars
\* no unsynchronised conflicting access: a mutation is never concurrent with any other access
NoConflict == \A t \in Threads : acc[t] = "mutate" => \A u \in Threads \ {t} : acc[u] = "none"
=============================================================================

SPECIFICATION Spec
CONSTANTS
 NP = 1
 MaxJobs = 4
 VerTable <- MCVerTable
 InitCfgs <- MCInitCfgs
 Reloads <- MCReloads
 MaxReloads = 1
 MaxTicks = 4
 BadKinds <- MCBad
 MaxOps = 5
 Features <- MCFeatures
 Gen = FALSE
CHECK_DEADLOCK FALSE
ACTION_CONSTRAINT EmitEdge

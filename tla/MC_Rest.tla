------------------------------ MODULE MC_Rest ------------------------------
(* restart from the store as it is: explicit saves, the persist loop, a running and a waiting job *)
EXTENDS Prunner, Catalog
MCVerTable == <<
  MkRet(1, 1, -1, 0, 0, GSingle),     \* 1 one slot, queue
  MkRet(1, 2, -1, 0, 0, GChain)       \* 2 two slots, chain of two tasks
>>
MCInitCfgs == {<<1>>, <<2>>}
MCReloads == {}
MCBad == {"none"}
MCFeatures == {"save", "persist", "restart"}
==============================================================================

SPECIFICATION Spec
CONSTANTS
 Threads = {1, 2, 3}
 Disciplined = TRUE
INVARIANT NoConflict

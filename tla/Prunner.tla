------------------------------ MODULE Prunner ------------------------------
(***************************************************************************)
(* Implementation-shaped design of prunner's PipelineRunner (prunner.go)    *)
(* and of the per-job taskctl.Scheduler loop (taskctl/scheduler.go).        *)
(*                                                                         *)
(* One action per critical section of the code (each exported operation     *)
(* and each callback takes PipelineRunner.mx), named after the function.    *)
(* Variables mirror the fields of PipelineRunner / PipelineJob / Scheduler. *)
(* The observable vocabulary of Props.tla is a state function of these      *)
(* variables (ObsSt) plus a few history variables (runs, stop, ack, last).  *)
(*                                                                         *)
(* Time: the code runs under a virtual clock in the conformance harness.    *)
(* The model keeps, per waiting job, the number of ticks since acceptance   *)
(* (saturating); a start timer fires exactly when due (urgent), asynchronous *)
(* goroutine steps (cancel delivery, first scheduler pass, completion, the  *)
(* persist loop's save) run before the client can act again                *)
(* ("quiescence"); scheduler polls are not tied to ticks (the poll period   *)
(* is much shorter than a start delay); the 3 s pauses of the persist loop  *)
(* and of the shutdown poll end at a LongAdv step.                          *)
(*                                                                         *)
(* Deliberate abstractions are listed in /verif/DESIGN.md section 4.2.      *)
(***************************************************************************)
EXTENDS Integers, Sequences, FiniteSets, TLC

CONSTANTS
  NP,          \* number of pipelines
  MaxJobs,     \* bound on accepted jobs
  VerTable,    \* sequence of definition versions (same shape as the trace's vers table)
  InitCfgs,    \* set of initial configurations: sequences (per pipeline) of version ids, 0 = undefined
  Reloads,     \* set of <<p, v>>: reload pipeline p to version v (v = 0: undefine)
  MaxReloads,
  MaxTicks,    \* bound on Tick steps
  BadKinds,    \* subset of {"none", "reserved"}
  MaxOps,      \* bound on client operations (schedule/cancel/save/...), keeps the graph finite
  Gen,         \* TRUE: record the controllable steps in hist (script generation by simulation)
  Features     \* subset of {"cancel", "unknowncancel", "save", "persist", "shutdown", "restart"}

DMAX == 2      \* ticks are counted up to the largest delay / retention period in the catalogue

VARIABLES
  cfgv,        \* [1..NP -> version id or 0]     r.defs
  epoch,       \* [1..NP -> Nat]                  number of reloads seen by the pipeline
  job,         \* sequence of job records         r.jobsByID / jobsByPipeline (index = acceptance order)
  stage,       \* [job -> [task -> status]]       scheduler's own stage status
  sched,       \* [job -> [pc, cancelled, lastErr]]
  running,     \* [job -> set of tasks with an open Run]  (runner wait group)
  rctx,        \* [job -> BOOLEAN]                runner context cancelled
  cancelPending, \* set of jobs whose cancel goroutine has not run yet
  waitList,    \* [1..NP -> Seq(job)]             r.waitListByPipeline
  shut,        \* "no" | "begun" | "forced" | "finishing" | "returned"      Shutdown() progress
  store,       \* [job -> persisted record]       content of the data store (last save)
  logs,        \* [job -> BOOLEAN]                the job has a log directory
  persist,     \* [req : BOOLEAN, multi : BOOLEAN, pc : "idle" | "sleeping", stale : BOOLEAN]   persist loop (1-slot request channel, 3 s
               \* pause); stale: the runner was restarted and has not saved yet (loading marks jobs canceled without a save request)
  nops, nreloads, nticks,
  \* history variables (observations of the injected runner and of API results)
  runs,        \* [job -> [task -> record]]
  stop,        \* [job -> record]
  ack,         \* [job -> record]
  last,        \* last client operation and its result
  ev,          \* last event
  obs,         \* = ObsSt, the observable vocabulary of the current state (stored so that TLC computes it once)
  pre,         \* vocabulary at the last quiescent state strictly before this one
  clock,       \* 0; set to 1 by the script emitter of the Sim_* modules
  hist         \* controllable steps taken so far (script generation)

vars == <<cfgv, epoch, job, stage, sched, running, rctx, cancelPending, waitList, shut, store, logs, persist,
          nops, nreloads, nticks, runs, stop, ack, last, ev, obs, pre, clock, hist>>

-----------------------------------------------------------------------------
(* helpers *)

Jobs == 1 .. Len(job)
P == 1 .. NP
Ver(j) == VerTable[job[j].ver]
Tasks(j) == 1 .. Len(Ver(j).tasks)
DepsOf(v, t) == {v.tasks[t].deps[i] : i \in 1 .. Len(v.tasks[t].deps)}
Def(p) == cfgv[p] # 0
CurDef(p) == VerTable[cfgv[p]]

IsRunning(jb, j) == jb[j].started /\ ~jb[j].completed /\ ~jb[j].canceled
RunCount(jb, p) == Cardinality({j \in 1 .. Len(jb) : jb[j].present /\ jb[j].p = p /\ IsRunning(jb, j)})

SeqRemove(s, x) == SelectSeq(s, LAMBDA y : y # x)

TimerPending(jb, j) == jb[j].timer = "armed"

\* resolveScheduleAction(pipeline, ignoreStartDelay)
ResolveAction(jb, wl, p, ignoreDelay) ==
  IF ~Def(p) THEN "queue"     \* zero-value definition: Concurrency 0, no limit, append
  ELSE LET d == CurDef(p) IN
       IF RunCount(jb, p) >= d.conc \/ (d.delay > 0 /\ ~ignoreDelay)
       THEN IF d.qlimit = 0 THEN "noqueue"
            ELSE IF d.replace /\ Len(wl[p]) > 0 THEN "replace"
            ELSE IF d.qlimit >= 0 /\ Len(wl[p]) >= d.qlimit THEN "queuefull"
            ELSE "queue"
       ELSE "start"

\* isSchedulable(pipeline): transcribed separately from the admission action
Schedulable(p) == ResolveAction(job, waitList, p, FALSE) \in {"replace", "queue", "start"}

-----------------------------------------------------------------------------
(* startJob / startJobsOnWaitList on a bundle S = [job, wl, sched] *)

GraphBad(jb, j) == VerTable[jb[j].ver].cyclic \/ jb[j].bad = "reserved"
GraphErr(jb, j) == IF jb[j].bad = "reserved" THEN "reserved" ELSE "cycle"

\* startJob(job): refused if canceled; graph error => canceled + LastError and startJobsOnWaitList (re-entrant);
\* else started with a fresh scheduler goroutine.
\* startJobsOnWaitList(pipeline), with the semantics of the repaired code: the popped list is what a nested call sees,
\* the head starts iff it has no pending timer and a slot is free
RECURSIVE StartJ(_, _), Dequeue(_, _)
StartJ(S, j) ==
  IF S.job[j].canceled THEN S
  ELSE IF GraphBad(S.job, j)
       THEN Dequeue([S EXCEPT !.job[j].canceled = TRUE, !.job[j].lastErr = GraphErr(S.job, j)], S.job[j].p)
       ELSE [S EXCEPT !.job[j].started = TRUE, !.job[j].startEl = S.job[j].el, !.sched[j].pc = "fresh"]

Dequeue(S, p) ==
  IF S.wl[p] = <<>> THEN S
  ELSE LET h == Head(S.wl[p]) IN
       IF TimerPending(S.job, h) \/ ~Def(p) \/ RunCount(S.job, p) >= CurDef(p).conc
       THEN S
       ELSE Dequeue(StartJ([S EXCEPT !.wl[p] = Tail(@)], h), p)

Bundle == [job |-> job, wl |-> waitList, sched |-> sched]
ApplyBundle(S) == /\ job' = S.job /\ waitList' = S.wl /\ sched' = S.sched

-----------------------------------------------------------------------------
(* quiescence: the client (driver) acts only when no goroutine can run and no timer is due *)

TimerDue(j) == job[j].timer = "armed" /\ job[j].el >= Ver(j).delay
NoneRunning == \A j \in Jobs : ~(job[j].present /\ IsRunning(job, j))
GoroutinesIdle == cancelPending = {} /\ \A j \in Jobs : sched[j].pc \notin {"fresh", "exited"}
\* Shutdown returns (wg.Wait() passes, final save) once the poll saw nothing running (graceful: ShutdownBegin itself
\* or a LongAdv step; forced: at once) and no job goroutine (not even that of a purged job) or cancel goroutine is left
ShutdownCanFinish == shut \in {"finishing", "forced"} /\ cancelPending = {} /\ \A j \in Jobs : sched[j].pc \in {"none", "done"}
PersistDue == "persist" \in Features /\ persist.req /\ persist.pc = "idle"
Quiescent == /\ GoroutinesIdle
             /\ \A j \in Jobs : ~TimerDue(j)
             /\ ~PersistDue
             /\ ~ShutdownCanFinish

-----------------------------------------------------------------------------
(* observable vocabulary (refinement mapping for Props) *)

TaskObs(j, t) == [present |-> TRUE, pos |-> t, status |-> job[j].rep[t].status,
                  hasStart |-> runs[j][t].begun > 0 /\ ~Ver(j).tasks[t].empty, startAt |-> 0,
                  hasEnd |-> FALSE, endAt |-> 0,
                  errored |-> job[j].rep[t].errored, canceled |-> job[j].rep[t].canceled, exit |-> 0]
BASE == 100
JobObs(j) == [p |-> job[j].p, ver |-> job[j].ver, epoch |-> job[j].epoch,
              accAt |-> BASE - job[j].el, retAt |-> BASE - job[j].el, bad |-> job[j].bad,
              listed |-> job[j].present, inList |-> job[j].present, byId |-> job[j].present, listPos |-> Len(job) + 1 - j,
              started |-> job[j].started, startAt |-> BASE - job[j].el + job[j].startEl,
              completed |-> job[j].completed, canceled |-> job[j].canceled,
              errored |-> \E t \in Tasks(j) : job[j].rep[t].errored,
              lastErr |-> job[j].lastErr, hasEnd |-> job[j].completed, endAt |-> BASE,
              createdAt |-> 2 * j, age |-> job[j].age, ntasks |-> Len(Ver(j).tasks), extraTasks |-> 0,
              tasks |-> [t \in Tasks(j) |-> TaskObs(j, t)], jsonAgree |-> TRUE, faithful |-> TRUE, lost |-> job[j].lost, rst |-> job[j].rst]
RunObs(j, t) == [begun |-> runs[j][t].begun, refused |-> 0, open |-> t \in running[j], outcome |-> runs[j][t].outcome,
                 begunAt |-> 0, endedAt |-> 0, cmdOk |-> TRUE, envOk |-> TRUE,
                 execAtBegin |-> runs[j][t].execAtBegin, execAtEnd |-> runs[j][t].execAtEnd,
                 goneAtBegin |-> runs[j][t].goneAtBegin, goneAtEnd |-> runs[j][t].goneAtEnd, unknown |-> FALSE]
\* the persisted fields of a job as they are reported now
\* (of a task its status and its error are persisted, not its canceled flag)
Persisted(jb, j) == [completed |-> jb[j].completed, canceled |-> jb[j].canceled, started |-> jb[j].started,
                     lastErr |-> jb[j].lastErr,
                     rep |-> [t \in DOMAIN jb[j].rep |-> [status |-> jb[j].rep[t].status, errored |-> jb[j].rep[t].errored]]]
StoreObs(j) == IF store[j].present
               THEN [present |-> TRUE, completed |-> store[j].rec.completed, canceled |-> store[j].rec.canceled,
                     started |-> store[j].rec.started, same |-> job[j].present /\ store[j].rec = Persisted(job, j)]
               ELSE [present |-> FALSE, completed |-> FALSE, canceled |-> FALSE, started |-> FALSE, same |-> FALSE]
Phase == IF shut = "no" THEN "run" ELSE "shutdown"
ObsSt == [now |-> BASE, phase |-> Phase, quiet |-> Quiescent,
          cfg |-> [p \in P |-> [def |-> Def(p), ver |-> cfgv[p], epoch |-> epoch[p]]],
          jobs |-> [j \in Jobs |-> JobObs(j)],
          pipes |-> [p \in P |-> [listed |-> Def(p), schedulable |-> Def(p) /\ Schedulable(p),
                                  running |-> Def(p) /\ RunCount(job, p) > 0]],
          runs |-> [j \in Jobs |-> [t \in Tasks(j) |-> RunObs(j, t)]],
          stop |-> [j \in Jobs |-> stop[j]],
          ack |-> [j \in Jobs |-> ack[j]],
          extra |-> 0, xlogs |-> 0,
          store |-> [loaded |-> TRUE, extra |-> 0, jobs |-> [j \in Jobs |-> StoreObs(j)]],
          logs |-> [j \in Jobs |-> logs[j]],
          idle |-> IF persist.req \/ persist.pc = "sleeping" \/ persist.stale \/ "persist" \notin Features THEN 0 ELSE 5000,
          last |-> last,
          shut |-> IF shut = "no" THEN "no" ELSE IF shut = "returned" THEN "returned" ELSE "begun",
          forced |-> last.forced]

\* The part of the vocabulary that strict conformance compares after every step of a gated script (lib/conform.py computes
\* the same view from the recorded vocabulary of the real runner): everything that is reported, stored or kept on disk now;
\* times, ages and the history (runs, stops, acknowledgements) are left out.
ConfView(o) ==
  [phase |-> o.phase, shut |-> o.shut,
   cfg |-> [p \in DOMAIN o.cfg |-> [def |-> o.cfg[p].def, ver |-> IF o.cfg[p].def THEN o.cfg[p].ver ELSE 0]],
   pipes |-> o.pipes,
   jobs |-> [j \in DOMAIN o.jobs |->
               IF o.jobs[j].listed
               THEN [listed |-> TRUE, p |-> o.jobs[j].p, ver |-> o.jobs[j].ver, started |-> o.jobs[j].started, completed |-> o.jobs[j].completed,
                     canceled |-> o.jobs[j].canceled, errored |-> o.jobs[j].errored, lastErr |-> o.jobs[j].lastErr,
                     tasks |-> [t \in DOMAIN o.jobs[j].tasks |-> [status |-> o.jobs[j].tasks[t].status, errored |-> o.jobs[j].tasks[t].errored,
                                                                  canceled |-> o.jobs[j].tasks[t].canceled]]]
               ELSE [listed |-> FALSE]],
   open |-> [j \in DOMAIN o.runs |-> [t \in DOMAIN o.runs[j] |-> o.runs[j][t].open]],
   store |-> [j \in DOMAIN o.store.jobs |->
               IF o.store.jobs[j].present
               THEN [present |-> TRUE, completed |-> o.store.jobs[j].completed, canceled |-> o.store.jobs[j].canceled,
                     started |-> o.store.jobs[j].started,
                     \* while a request is pending the loop may have saved between two callbacks that are one step here
                     \* (HandleTaskChange / HandleStageChange): whether the record is up to date is then not predicted
                     same |-> IF persist.req THEN "*" ELSE IF o.store.jobs[j].same THEN "y" ELSE "n"]
               ELSE [present |-> FALSE]],
   logs |-> o.logs,
   res |-> o.last.res, err |-> o.last.err, new |-> o.last.new]

Pr == INSTANCE Props WITH st <- obs, ev <- ev, pre <- pre, tbl <- VerTable

\* pre' : the last quiescent vocabulary strictly before the next state
PreNext == pre' = IF obs.quiet THEN obs ELSE pre

-----------------------------------------------------------------------------
(* initial state *)

NoLast == [op |-> "none", p |-> 0, j |-> 0, t |-> 0, o |-> "", v |-> 0, bad |-> "none", res |-> "ok", err |-> "", new |-> 0, forced |-> FALSE]
NoEv == [k |-> "Reset", j |-> 0, t |-> 0, o |-> ""]

Init ==
  /\ cfgv \in InitCfgs
  /\ epoch = [p \in P |-> 0]
  /\ job = <<>> /\ stage = <<>> /\ sched = <<>> /\ running = <<>> /\ rctx = <<>>
  /\ cancelPending = {}
  /\ waitList = [p \in P |-> <<>>]
  /\ shut = "no"
  /\ store = <<>> /\ logs = <<>>
  /\ persist = [req |-> FALSE, multi |-> FALSE, pc |-> "idle", stale |-> FALSE]
  /\ nops = 0 /\ nreloads = 0 /\ nticks = 0
  /\ runs = <<>> /\ stop = <<>> /\ ack = <<>>
  /\ last = NoLast /\ ev = NoEv
  /\ clock = 0
  /\ hist = IF Gen THEN [p \in P |-> [op |-> "init", p |-> p, j |-> 0, t |-> 0, o |-> "", v |-> cfgv[p], bad |-> "none"]] ELSE <<>>
  /\ obs = ObsSt
  /\ pre = obs

HStep(op, p, j, t, o, v, bad) == [op |-> op, p |-> p, j |-> j, t |-> t, o |-> o, v |-> v, bad |-> bad]
Step(s) == hist' = IF Gen THEN Append(hist, s) ELSE hist
NoStep == hist' = hist
\* requestPersist(): a one-slot channel.  multi: a request was made while one was already pending - the loop goroutine may
\* have taken the first one in between (it runs as soon as the request is there), in which case one more is left for later
ReqPersist == persist' = [persist EXCEPT !.req = TRUE, !.multi = @ \/ (persist.req /\ persist.pc = "idle")]
\* a step of the model that is several callbacks of the code (HandleTaskChange + HandleStageChange), each with its own request
ReqPersistMany == persist' = [persist EXCEPT !.req = TRUE, !.multi = @ \/ persist.pc = "idle"]
OpEv(j, t, o) == ev' = [k |-> "Op", j |-> j, t |-> t, o |-> o]
ClientOk == Quiescent /\ clock = 0
KeepForced(l) == [l EXCEPT !.forced = last.forced]

-----------------------------------------------------------------------------
(* ScheduleAsync(p) *)

NewJob(p, bad) ==
  LET v == CurDef(p) IN
  [p |-> p, ver |-> cfgv[p], epoch |-> epoch[p], bad |-> bad, present |-> TRUE,
   started |-> FALSE, completed |-> FALSE, canceled |-> FALSE, lastErr |-> "", creq |-> FALSE,
   timer |-> IF v.delay > 0 THEN "armed" ELSE "none", el |-> 0, startEl |-> 0, age |-> 0, lost |-> FALSE, rst |-> FALSE,
   rep |-> [t \in 1 .. Len(v.tasks) |-> [status |-> "waiting", errored |-> FALSE, canceled |-> FALSE]]]

Schedule(p, bad) ==
  /\ ClientOk /\ nops < MaxOps
  /\ nops' = nops + 1
  /\ LET act == IF shut # "no" THEN "shutdown" ELSE IF ~Def(p) THEN "undefined"
                ELSE ResolveAction(job, waitList, p, FALSE)
         n == Len(job) + 1
     IN
     IF act \in {"shutdown", "undefined", "noqueue", "queuefull"}
     THEN /\ last' = KeepForced([NoLast EXCEPT !.op = "schedule", !.p = p, !.bad = bad, !.res = "err", !.err = act])
          /\ UNCHANGED <<job, stage, sched, running, rctx, waitList, runs, stop, ack, store, logs, persist>>
     ELSE /\ n <= MaxJobs
          /\ LET v == CurDef(p)
                 nt == Len(v.tasks)
                 jb0 == Append(job, NewJob(p, bad))
                 sc0 == Append(sched, [pc |-> "none", cancelled |-> FALSE, lastErr |-> ""])
                 S0 == [job |-> jb0, wl |-> waitList, sched |-> sc0]
                 S1 == CASE act = "queue" -> [S0 EXCEPT !.wl[p] = Append(@, n)]
                         [] act = "replace" ->
                              LET prev == waitList[p][Len(waitList[p])] IN
                              [S0 EXCEPT !.job[prev].canceled = TRUE, !.job[prev].timer = "none",
                                         !.wl[p] = [@ EXCEPT ![Len(@)] = n]]
                         [] act = "start" -> StartJ(S0, n)
             IN /\ ApplyBundle(S1)
                /\ stage' = Append(stage, [t \in 1 .. nt |-> "waiting"])
                /\ running' = Append(running, {})
                /\ rctx' = Append(rctx, FALSE)
                /\ runs' = Append(runs, [t \in 1 .. nt |-> [begun |-> 0, outcome |-> "none", execAtBegin |-> FALSE, execAtEnd |-> FALSE, goneAtBegin |-> FALSE, goneAtEnd |-> FALSE]])
                /\ stop' = Append(stop, [n |-> 0, at |-> 0, duringShut |-> FALSE, byShutdown |-> FALSE, begunBefore |-> [t \in 1 .. nt |-> FALSE], openBefore |-> [t \in 1 .. nt |-> FALSE]])
                /\ ack' = Append(ack, [n |-> 0, req |-> 0, at |-> 0, wasStarted |-> FALSE, wasFinished |-> FALSE,
                                       okAtAck |-> [t \in 1 .. nt |-> FALSE], openAtAck |-> [t \in 1 .. nt |-> FALSE],
                                       failedAtAck |-> FALSE, stopBefore |-> FALSE])
                /\ store' = Append(store, [present |-> FALSE])
                /\ logs' = Append(logs, FALSE)
                \* ScheduleAsync and startJob each leave a request (both deferred): two when the job is started (or fails to start) at once
                /\ IF act = "start" THEN ReqPersistMany ELSE ReqPersist
                /\ last' = [NoLast EXCEPT !.op = "schedule", !.p = p, !.bad = bad, !.new = n]
  /\ OpEv(0, 0, "")
  /\ Step(HStep("schedule", p, 0, 0, "", 0, bad))
  /\ PreNext
  /\ UNCHANGED <<cfgv, epoch, cancelPending, shut, nreloads, nticks, clock>>

-----------------------------------------------------------------------------
(* CancelJob(id) -> cancelJobInternal *)

\* the not-started branch with the repaired semantics (D2): flags, timer stopped, removed from
\* the wait list (order preserved), then a dequeue attempt for the pipeline
CancelNotStarted(S, j) ==
  LET p == S.job[j].p
      S1 == [S EXCEPT !.job[j].canceled = TRUE, !.job[j].timer = "none",
                      !.job[j].rep = [t \in DOMAIN @ |-> [@[t] EXCEPT !.canceled = TRUE]],
                      !.wl[p] = SeqRemove(@, j)]
  IN Dequeue(S1, p)

AckRec(j) ==
  IF ack[j].n > 0 THEN [ack[j] EXCEPT !.n = 2]
  ELSE [n |-> 1, req |-> 1, at |-> 0, wasStarted |-> job[j].started, wasFinished |-> job[j].completed \/ job[j].canceled,
        okAtAck |-> [t \in Tasks(j) |-> runs[j][t].begun > 0 /\ t \notin running[j] /\
                       (runs[j][t].outcome = "ok" \/ (runs[j][t].outcome \in {"fail", "err"} /\ Ver(j).tasks[t].allow))],
        openAtAck |-> [t \in Tasks(j) |-> t \in running[j]],
        failedAtAck |-> \E t \in Tasks(j) : runs[j][t].outcome = "err" \/ (runs[j][t].outcome = "fail" /\ ~Ver(j).tasks[t].allow),
        stopBefore |-> stop[j].n > 0]

Cancel(j) ==
  /\ ClientOk /\ nops < MaxOps /\ "cancel" \in Features
  /\ nops' = nops + 1
  /\ j \in Jobs \/ (j = Len(job) + 1 /\ "unknowncancel" \in Features)
  /\ IF j \notin Jobs \/ ~job[j].present
     THEN /\ last' = KeepForced([NoLast EXCEPT !.op = "cancel", !.j = 0, !.res = "err", !.err = "notfound"])
          /\ UNCHANGED <<job, sched, waitList, cancelPending, ack, persist>>
     ELSE IF job[j].canceled
     THEN /\ last' = KeepForced([NoLast EXCEPT !.op = "cancel", !.j = j])
          /\ ack' = [ack EXCEPT ![j] = AckRec(j)]
          /\ UNCHANGED <<job, sched, waitList, cancelPending, persist>>
     ELSE IF job[j].completed
     THEN /\ last' = KeepForced([NoLast EXCEPT !.op = "cancel", !.j = j, !.res = "err", !.err = "completed"])
          /\ UNCHANGED <<job, sched, waitList, cancelPending, ack, persist>>
     ELSE IF ~job[j].started
     THEN /\ ApplyBundle(CancelNotStarted(Bundle, j))
          /\ last' = KeepForced([NoLast EXCEPT !.op = "cancel", !.j = j])
          /\ ack' = [ack EXCEPT ![j] = AckRec(j)]
          /\ ReqPersist
          /\ UNCHANGED cancelPending
     ELSE /\ cancelPending' = cancelPending \cup {j}
          /\ job' = [job EXCEPT ![j].creq = TRUE]
          /\ last' = KeepForced([NoLast EXCEPT !.op = "cancel", !.j = j])
          /\ ack' = [ack EXCEPT ![j] = AckRec(j)]
          /\ UNCHANGED <<sched, waitList, persist>>
  /\ OpEv(j, 0, "")
  /\ Step(HStep("cancel", 0, j, 0, "", 0, "none"))
  /\ PreNext
  /\ UNCHANGED <<cfgv, epoch, stage, running, rctx, shut, store, logs, nreloads, nticks, runs, stop, clock>>

-----------------------------------------------------------------------------
(* the cancel goroutine: Scheduler.Cancel() = set flag; runner.Cancel() = cancel context and   *)
(* wait for the running tasks, which return context.Canceled (HandleTaskChange + stage error)  *)

CancelDeliver(j) ==
  /\ j \in cancelPending
  /\ cancelPending' = cancelPending \ {j}
  /\ rctx' = [rctx EXCEPT ![j] = TRUE]
  /\ running' = [running EXCEPT ![j] = {}]
  /\ LET R == running[j]
         hard == \E t \in R : ~Ver(j).tasks[t].allow
     IN /\ stage' = [stage EXCEPT ![j] = [t \in DOMAIN @ |-> IF t \in R THEN (IF Ver(j).tasks[t].allow THEN "done" ELSE "error") ELSE @[t]]]
        \* HandleTaskChange / HandleStageChange find the job only while it is present
        /\ job' = IF job[j].present
                  THEN [job EXCEPT ![j].rep = [t \in DOMAIN @ |-> IF t \in R THEN [@[t] EXCEPT !.canceled = TRUE, !.status = "canceled"] ELSE @[t]]]
                  ELSE job
        \* the stage goroutines assign lastErr in an order that is a race when a task failed in the same instant
        \* (only then: the failing task's goroutine and the interrupted tasks' goroutines all assign lastErr now)
        /\ \E le \in (IF hard THEN (IF sched[j].lastErr = "exit" /\ last.op = "finish" /\ last.j = j THEN {"exit", "canceled"} ELSE {"canceled"})
                                ELSE {sched[j].lastErr}) :
              sched' = [sched EXCEPT ![j].cancelled = TRUE, ![j].lastErr = le]
        /\ runs' = [runs EXCEPT ![j] = [t \in DOMAIN @ |-> IF t \in R THEN [@[t] EXCEPT !.outcome = "canceled", !.execAtEnd = job[j].present /\ IsRunning(job, j), !.goneAtEnd = ~job[j].present] ELSE @[t]]]
        /\ stop' = [stop EXCEPT ![j] = IF @.n > 0 THEN [@ EXCEPT !.n = 2]
                                        ELSE [n |-> 1, at |-> 0, duringShut |-> shut # "no", byShutdown |-> shut # "no", begunBefore |-> [t \in Tasks(j) |-> runs[j][t].begun > 0],
                                              openBefore |-> [t \in Tasks(j) |-> t \in R]]]
        /\ IF R # {} /\ job[j].present THEN ReqPersistMany ELSE UNCHANGED persist
  /\ ev' = [k |-> "RunnerCancel", j |-> j, t |-> 0, o |-> ""]
  /\ NoStep /\ PreNext
  /\ UNCHANGED <<cfgv, epoch, waitList, shut, store, logs, nops, nreloads, nticks, ack, last, clock>>

-----------------------------------------------------------------------------
(* one pass of Scheduler.Schedule (taskctl/scheduler.go)                                       *)

IsDone(j) == \A t \in Tasks(j) : stage[j][t] \notin {"waiting", "running"}

\* One pass of the loop body over g.Nodes().  The nodes live in a Go map, so the visiting order is arbitrary (ord), and a
\* visited stage sees what earlier visits of the same pass did: checkStatus marks a waiting stage canceled if one of its
\* dependencies is canceled or in error (not allow_failure) - without any notification - and the stage is started if all
\* its dependencies are done.  The goroutine of a task with an empty script returns at once: it may already be done when
\* the next stage is visited (t \in vis) or only after the pass; a canceled mark therefore needs between one pass and
\* one pass per level of the graph to reach every dependent.
RECURSIVE Visit(_, _, _, _, _, _)
Visit(j, sg, R, ord, i, vis) ==
  IF i > Len(Ver(j).tasks) THEN [sg |-> sg, R |-> R]
  ELSE LET t == ord[i]
           deps == DepsOf(Ver(j), t)
       IN IF sg[t] # "waiting" THEN Visit(j, sg, R, ord, i + 1, vis)
          ELSE IF \E d \in deps : (sg[d] = "error" /\ ~Ver(j).tasks[d].allow) \/ sg[d] = "canceled"
               THEN Visit(j, [sg EXCEPT ![t] = "canceled"], R, ord, i + 1, vis)
               ELSE IF \A d \in deps : sg[d] = "done" \/ (sg[d] = "error" /\ Ver(j).tasks[d].allow)
                    THEN Visit(j, [sg EXCEPT ![t] = IF Ver(j).tasks[t].empty /\ t \in vis THEN "done" ELSE "running"], R \cup {t}, ord, i + 1, vis)
                    ELSE Visit(j, sg, R, ord, i + 1, vis)

EmptyTasks(j) == {t \in Tasks(j) : Ver(j).tasks[t].empty}
PassOutcomes(j) == {Visit(j, stage[j], {}, ord, 1, vis) : ord \in Permutations(Tasks(j)), vis \in SUBSET {t \in EmptyTasks(j) : stage[j][t] = "waiting"}}

SchedPass(j) ==
  IF IsDone(j) \/ sched[j].cancelled
  THEN /\ sched' = [sched EXCEPT ![j].pc = "exited"]
       /\ UNCHANGED <<stage, running, job, runs, logs, persist>>
  ELSE \E oc \in PassOutcomes(j) :
       LET sg1 == oc.sg
           R == oc.R
           E == {t \in R : Ver(j).tasks[t].empty}      \* empty script: Run returns at once, no callbacks
           exec == job[j].present /\ IsRunning(job, j)
       IN /\ stage' = [stage EXCEPT ![j] = [t \in DOMAIN sg1 |-> IF t \in E THEN "done" ELSE sg1[t]]]
          /\ running' = [running EXCEPT ![j] = @ \cup (R \ E)]
          /\ job' = IF job[j].present
                    THEN [job EXCEPT ![j].rep = [t \in DOMAIN @ |-> IF t \in E THEN [@[t] EXCEPT !.status = "done"]
                                                                  ELSE IF t \in R THEN [@[t] EXCEPT !.status = "running"] ELSE @[t]]]
                    ELSE job
          /\ runs' = [runs EXCEPT ![j] = [t \in DOMAIN @ |-> IF t \in R
                          THEN [@[t] EXCEPT !.begun = IF @ < 2 THEN @ + 1 ELSE @, !.execAtBegin = exec, !.goneAtBegin = ~job[j].present,
                                            !.outcome = IF t \in E THEN "ok" ELSE @,
                                            !.execAtEnd = IF t \in E THEN exec ELSE @, !.goneAtEnd = IF t \in E THEN ~job[j].present ELSE @]
                          ELSE @[t]]]
          /\ logs' = IF R \ E # {} THEN [logs EXCEPT ![j] = TRUE] ELSE logs
          /\ IF R # {} /\ job[j].present THEN ReqPersistMany ELSE UNCHANGED persist
          /\ sched' = [sched EXCEPT ![j].pc = "polling"]

\* first pass, right after startJob spawned the goroutine
FirstStep(j) ==
  /\ j \in Jobs /\ sched[j].pc = "fresh"
  /\ SchedPass(j)
  /\ ev' = [k |-> "Sched", j |-> j, t |-> 0, o |-> ""]
  /\ NoStep /\ PreNext
  /\ UNCHANGED <<cfgv, epoch, rctx, cancelPending, waitList, shut, store, nops, nreloads, nticks, stop, ack, last, clock>>

\* a later pass: the loop wakes up from its pause (the driver advances the clock to that instant)
Poll(j) ==
  /\ ClientOk
  /\ j \in Jobs /\ sched[j].pc = "polling"
  /\ SchedPass(j)
  /\ OpEv(j, 0, "")
  /\ last' = KeepForced([NoLast EXCEPT !.op = "poll", !.j = j])
  /\ Step(HStep("poll", 0, j, 0, "", 0, "none"))
  /\ PreNext
  /\ UNCHANGED <<cfgv, epoch, rctx, cancelPending, waitList, shut, store, nops, nreloads, nticks, stop, ack, clock>>

-----------------------------------------------------------------------------
(* a running task returns: HandleTaskChange (+ fail-fast cancel) + HandleStageChange           *)

Finish(j, t, o) ==
  /\ ClientOk
  /\ j \in Jobs /\ t \in running[j]
  /\ running' = [running EXCEPT ![j] = @ \ {t}]
  /\ LET allow == Ver(j).tasks[t].allow
         \* "fail": the command exits with a non-zero status; "err": Run returns another error (not an exit status), which
         \* marks the task errored even if it is allow_failure
         errored == (o = "fail" /\ ~allow) \/ o = "err"
         hardFail == o \in {"fail", "err"} /\ ~allow          \* the stage ends in Error and sets the scheduler's last error
         p == job[j].p
         \* HandleTaskChange: only if the job is still known to the runner
         failFast == errored /\ job[j].present /\ Def(p) /\ ~CurDef(p).cont
         doCancel == failFast /\ ~job[j].canceled /\ ~job[j].completed
     IN /\ stage' = [stage EXCEPT ![j][t] = IF hardFail THEN "error" ELSE "done"]
        /\ job' = IF job[j].present
                  THEN [job EXCEPT ![j].rep[t] = [status |-> IF @.canceled THEN "canceled" ELSE IF hardFail THEN "error" ELSE "done",
                                                   errored |-> errored, canceled |-> @.canceled],
                                    ![j].creq = @ \/ doCancel]
                  ELSE job
        /\ sched' = [sched EXCEPT ![j].lastErr = IF hardFail THEN "exit" ELSE @]
        /\ cancelPending' = IF doCancel THEN cancelPending \cup {j} ELSE cancelPending
        /\ runs' = [runs EXCEPT ![j][t].outcome = o, ![j][t].execAtEnd = job[j].present /\ IsRunning(job, j), ![j][t].goneAtEnd = ~job[j].present]
        /\ IF job[j].present THEN ReqPersistMany ELSE UNCHANGED persist
  /\ OpEv(j, t, o)
  /\ last' = KeepForced([NoLast EXCEPT !.op = "finish", !.j = j, !.t = t, !.o = o])
  /\ Step(HStep("finish", 0, j, t, o, 0, "none"))
  /\ PreNext
  /\ UNCHANGED <<cfgv, epoch, rctx, waitList, shut, store, logs, nops, nreloads, nticks, stop, ack, clock>>

-----------------------------------------------------------------------------
(* JobCompleted(id, err): the loop exited and wg.Wait() passed                                 *)

JobComplete(j) ==
  /\ j \in Jobs /\ sched[j].pc = "exited" /\ running[j] = {}
  /\ IF ~job[j].present
     THEN \* purged job: JobCompleted returns early
          /\ sched' = [sched EXCEPT ![j].pc = "done"]
          /\ UNCHANGED <<job, waitList, persist>>
     ELSE /\ LET allFinished == \A t \in Tasks(j) : job[j].rep[t].status = "done"
                 err == IF sched[j].lastErr # "" THEN sched[j].lastErr
                        ELSE IF job[j].creq /\ ~allFinished THEN "canceled" ELSE ""     \* repaired D4
                 S0 == [Bundle EXCEPT !.job[j].completed = TRUE, !.job[j].lastErr = err,
                                      !.job[j].canceled = (err = "canceled"), !.sched[j].pc = "done"]
             IN ApplyBundle(Dequeue(S0, job[j].p))
          \* JobCompleted's own request, and one per job that startJobsOnWaitList starts
          /\ IF waitList[job[j].p] # <<>> THEN ReqPersistMany ELSE ReqPersist
  /\ ev' = [k |-> "JobCompleted", j |-> j, t |-> 0, o |-> ""]
  /\ NoStep /\ PreNext
  /\ UNCHANGED <<cfgv, epoch, stage, running, rctx, cancelPending, shut, store, logs, nops, nreloads, nticks, runs, stop, ack, last, clock>>

-----------------------------------------------------------------------------
(* StartDelayedJob(id): the start timer fires (exactly when due)                               *)

TimerFire(j) ==
  /\ j \in Jobs /\ TimerDue(j)
  /\ IF job[j].canceled \/ ~job[j].present
     THEN /\ job' = [job EXCEPT ![j].timer = "none"]     \* returns early; the timer is spent
          /\ UNCHANGED <<waitList, sched, persist>>
     ELSE LET S == Dequeue([Bundle EXCEPT !.job[j].timer = "none"], job[j].p) IN
          /\ ApplyBundle(S)
          \* only startJob leaves a request: nothing is requested when the head still cannot start
          /\ IF \E k \in Jobs : S.job[k].started # job[k].started \/ S.job[k].canceled # job[k].canceled
             THEN ReqPersist ELSE UNCHANGED persist
  /\ ev' = [k |-> "Timer", j |-> j, t |-> 0, o |-> ""]
  /\ NoStep /\ PreNext
  /\ UNCHANGED <<cfgv, epoch, stage, running, rctx, cancelPending, shut, store, logs, nops, nreloads, nticks, runs, stop, ack, last, clock>>

\* time passes by one tick
NeedsTime == \/ \E j \in Jobs : job[j].timer = "armed"
             \/ \E p \in P : Def(p) /\ CurDef(p).retPeriod > 0 /\ \E j \in Jobs : job[j].present /\ job[j].p = p /\ job[j].age <= DMAX
AgeBy(jb, n) == [j \in 1 .. Len(jb) |->
                   [jb[j] EXCEPT !.el = IF jb[j].started THEN @ ELSE IF @ + n <= DMAX THEN @ + n ELSE DMAX,
                                 !.age = IF @ + n <= DMAX + 1 THEN @ + n ELSE DMAX + 1]]
\* (the bound on ticks does not stop a pending start timer from expiring: the saturating counters keep the graph finite)
Tick ==
  /\ ClientOk
  /\ nticks < MaxTicks \/ \E j \in Jobs : job[j].timer = "armed" /\ job[j].el < Ver(j).delay
  /\ NeedsTime
  /\ nticks' = IF nticks < MaxTicks THEN nticks + 1 ELSE nticks
  /\ job' = AgeBy(job, 1)
  /\ OpEv(0, 0, "")
  /\ last' = KeepForced([NoLast EXCEPT !.op = "tick"])
  /\ Step(HStep("tick", 0, 0, 0, "", 0, "none"))
  /\ PreNext
  /\ UNCHANGED <<cfgv, epoch, stage, sched, running, rctx, cancelPending, waitList, shut, store, logs, persist, nops, nreloads, runs, stop, ack, clock>>

-----------------------------------------------------------------------------
(* ReplaceDefinitions *)

Reload(p, v) ==
  /\ ClientOk /\ nreloads < MaxReloads /\ <<p, v>> \in Reloads /\ cfgv[p] # v
  /\ nreloads' = nreloads + 1
  /\ cfgv' = [cfgv EXCEPT ![p] = v]
  /\ epoch' = [epoch EXCEPT ![p] = @ + 1]
  /\ OpEv(0, 0, "")
  /\ last' = KeepForced([NoLast EXCEPT !.op = "reload", !.p = p, !.v = v])
  /\ Step(HStep("reload", p, 0, 0, "", v, "none"))
  /\ PreNext
  /\ UNCHANGED <<job, stage, sched, running, rctx, cancelPending, waitList, shut, store, logs, persist, nops, nticks, runs, stop, ack, clock>>

-----------------------------------------------------------------------------
(* SaveToStore: retention, then a snapshot of all jobs is written                             *)

\* position of job j among the jobs of its pipeline, newest first (sort by Created descending)
Rank(jb, j) == Cardinality({k \in 1 .. Len(jb) : jb[k].present /\ jb[k].p = jb[j].p /\ k > j})

ShouldRemove(jb, j) ==
  LET p == jb[j].p IN
  IF ~Def(p) THEN ~IsRunning(jb, j)     \* a job whose tasks still execute is kept until it is finished
  ELSE IF ~jb[j].started /\ ~jb[j].canceled THEN FALSE
  ELSE IF ~jb[j].completed /\ ~jb[j].canceled THEN FALSE
  ELSE IF CurDef(p).retPeriod > 0 /\ jb[j].age > CurDef(p).retPeriod THEN TRUE
  ELSE CurDef(p).retCount > 0 /\ Rank(jb, j) >= CurDef(p).retCount

\* what SaveToStore does to (job, waitList, logs, store); purged jobs disappear from the runner's maps
SaveJobs(jb) == [j \in 1 .. Len(jb) |-> IF jb[j].present /\ ShouldRemove(jb, j) THEN [jb[j] EXCEPT !.present = FALSE] ELSE jb[j]]
DoSave ==
  LET jb1 == SaveJobs(job) IN
  /\ job' = jb1
  /\ waitList' = [p \in P |-> SelectSeq(waitList[p], LAMBDA j : jb1[j].present)]
  \* the output of the jobs this save removes is deleted (a job lost by a crash is not known to the new runner: its output stays)
  /\ logs' = [j \in Jobs |-> logs[j] /\ ~(job[j].present /\ ~jb1[j].present)]
  /\ store' = [j \in Jobs |-> IF jb1[j].present THEN [present |-> TRUE, rec |-> Persisted(jb1, j)] ELSE [present |-> FALSE]]

Save ==
  /\ ClientOk /\ "save" \in Features /\ nops < MaxOps
  /\ nops' = nops + 1
  /\ DoSave
  /\ OpEv(0, 0, "")
  /\ last' = KeepForced([NoLast EXCEPT !.op = "save"])
  /\ Step(HStep("save", 0, 0, 0, "", 0, "none"))
  /\ PreNext
  /\ persist' = [persist EXCEPT !.stale = FALSE]
  /\ UNCHANGED <<cfgv, epoch, stage, sched, running, rctx, cancelPending, shut, nreloads, nticks, runs, stop, ack, clock>>

\* the persist loop: a pending request is served at once when the loop is idle, then it sleeps 3 s
PersistSave ==
  \* the loop goroutine saves as soon as a request is there - before or after the goroutines of the jobs have taken their
  \* steps (what is written then may already be outdated: the later steps leave their own request)
  /\ PersistDue
  /\ DoSave
  /\ \E left \in (IF persist.multi THEN {FALSE, TRUE} ELSE {FALSE}) :
        persist' = [req |-> left, multi |-> FALSE, pc |-> "sleeping", stale |-> FALSE]
  /\ ev' = [k |-> "Persist", j |-> 0, t |-> 0, o |-> ""]
  /\ NoStep /\ PreNext
  /\ UNCHANGED <<cfgv, epoch, stage, sched, running, rctx, cancelPending, shut, nops, nreloads, nticks, runs, stop, ack, last, clock>>

-----------------------------------------------------------------------------
(* Shutdown(ctx)                                                                               *)

\* under the lock: flag, every job on a wait list is marked canceled, the wait lists are dropped
ShutdownBegin ==
  /\ ClientOk /\ "shutdown" \in Features /\ shut = "no" /\ nops < MaxOps
  /\ nops' = nops + 1
  /\ LET W == {j \in Jobs : \E p \in P : \E i \in 1 .. Len(waitList[p]) : waitList[p][i] = j} IN
     job' = [j \in Jobs |-> IF j \in W THEN [job[j] EXCEPT !.canceled = TRUE] ELSE job[j]]
  /\ waitList' = [p \in P |-> <<>>]
  \* first poll: nothing running => wg.Wait, final save, return
  /\ shut' = IF NoneRunning THEN "finishing" ELSE "begun"
  /\ OpEv(0, 0, "")
  /\ last' = [NoLast EXCEPT !.op = "shutdown"]
  /\ Step(HStep("shutdown", 0, 0, 0, "", 0, "none"))
  /\ PreNext
  /\ UNCHANGED <<cfgv, epoch, stage, sched, running, rctx, cancelPending, store, logs, persist, nreloads, nticks, runs, stop, ack, clock>>

\* ctx.Done(): cancelJobInternal for every job, return ctx.Err() (then the deferred wg.Wait + save)
ShutdownForce ==
  /\ ClientOk /\ shut = "begun" /\ nops < MaxOps
  /\ nops' = nops + 1
  /\ LET C == {j \in Jobs : job[j].present /\ job[j].started /\ ~job[j].completed /\ ~job[j].canceled} IN
     /\ cancelPending' = cancelPending \cup C
     /\ job' = [j \in Jobs |-> IF j \in C THEN [job[j] EXCEPT !.creq = TRUE] ELSE job[j]]
  /\ shut' = "forced"
  /\ OpEv(0, 0, "")
  /\ last' = [NoLast EXCEPT !.op = "force", !.forced = TRUE]
  /\ Step(HStep("force", 0, 0, 0, "", 0, "none"))
  /\ PreNext
  /\ UNCHANGED <<cfgv, epoch, stage, sched, running, rctx, waitList, store, logs, persist, nreloads, nticks, runs, stop, ack, clock>>

\* deferred part of Shutdown: wg.Wait() passed, final SaveToStore, return
ShutdownFinish ==
  /\ ShutdownCanFinish
  /\ DoSave
  /\ shut' = "returned"
  /\ ev' = [k |-> "ShutdownRet", j |-> 0, t |-> 0, o |-> ""]
  /\ NoStep /\ PreNext
  /\ UNCHANGED <<cfgv, epoch, stage, sched, running, rctx, cancelPending, persist, nops, nreloads, nticks, runs, stop, ack, last, clock>>

\* 3 s pass: the persist loop wakes up, the shutdown poll runs, all start timers become due,
\* retention periods expire
LongAdv ==
  /\ ClientOk /\ nticks < MaxTicks
  /\ persist.pc = "sleeping" \/ shut = "begun"
  /\ nticks' = nticks + 1
  /\ job' = AgeBy(job, DMAX + 1)
  /\ persist' = [persist EXCEPT !.pc = "idle"]
  /\ shut' = IF shut = "begun" /\ NoneRunning THEN "finishing" ELSE shut
  /\ OpEv(0, 0, "")
  /\ last' = KeepForced([NoLast EXCEPT !.op = "longadv"])
  /\ Step(HStep("longadv", 0, 0, 0, "", 0, "none"))
  /\ PreNext
  /\ UNCHANGED <<cfgv, epoch, stage, sched, running, rctx, cancelPending, waitList, store, logs, nops, nreloads, runs, stop, ack, clock>>

-----------------------------------------------------------------------------
(* restart: a new runner is created on the content of the store (the old process is gone)      *)

Restart ==
  /\ ClientOk /\ "restart" \in Features /\ nops < MaxOps /\ shut \in {"no", "returned"}
  /\ nops' = nops + 1
  /\ job' = [j \in Jobs |->
       IF ~store[j].present THEN [job[j] EXCEPT !.present = FALSE, !.timer = "none", !.lost = @ \/ job[j].present]
       ELSE LET r == store[j].rec
                wasRunning == r.started /\ ~r.completed /\ ~r.canceled
                wasWaiting == ~r.started /\ ~r.canceled
            IN [job[j] EXCEPT !.present = TRUE, !.started = r.started, !.completed = r.completed,
                              !.canceled = r.canceled \/ wasRunning \/ wasWaiting,
                              !.rst = @ \/ wasRunning \/ wasWaiting,
                              !.lastErr = r.lastErr,        \* part of the persisted job (repaired D5)
                              !.timer = "none", !.creq = FALSE,
                              \* (the canceled flag of a task is not part of the persisted task: it comes back unset)
                              !.rep = [t \in DOMAIN r.rep |->
                                         [status |-> IF wasRunning /\ r.rep[t].status \in {"waiting", "running"} THEN "canceled" ELSE r.rep[t].status,
                                          errored |-> r.rep[t].errored, canceled |-> FALSE]]]]
  /\ stage' = [j \in Jobs |-> [t \in DOMAIN stage[j] |-> "done"]]
  /\ sched' = [j \in Jobs |-> [pc |-> "none", cancelled |-> FALSE, lastErr |-> ""]]
  /\ running' = [j \in Jobs |-> {}]
  /\ rctx' = [j \in Jobs |-> FALSE]
  /\ cancelPending' = {}
  /\ waitList' = [p \in P |-> <<>>]
  /\ shut' = "no"
  /\ persist' = [req |-> FALSE, multi |-> FALSE, pc |-> "idle", stale |-> TRUE]
  /\ ev' = [k |-> "Restart", j |-> 0, t |-> 0, o |-> ""]
  /\ last' = [NoLast EXCEPT !.op = "restart"]
  /\ Step(HStep("restart", 0, 0, 0, "", 0, "none"))
  \* the tasks that were executing died with the old process
  /\ runs' = [j \in Jobs |-> [t \in DOMAIN runs[j] |-> IF t \in running[j] THEN [runs[j][t] EXCEPT !.outcome = "lost", !.execAtEnd = TRUE] ELSE runs[j][t]]]
  \* stops delivered by the old process do not belong to a shutdown of the new runner
  /\ stop' = [j \in Jobs |-> [stop[j] EXCEPT !.duringShut = FALSE]]
  /\ PreNext
  /\ UNCHANGED <<cfgv, epoch, store, logs, nreloads, nticks, ack, clock>>

-----------------------------------------------------------------------------

Internal == \/ \E j \in Jobs : FirstStep(j) \/ CancelDeliver(j) \/ JobComplete(j) \/ TimerFire(j)
            \/ PersistSave
            \/ ShutdownFinish

Client == \/ \E p \in P : \E b \in BadKinds : Schedule(p, b)
          \/ \E j \in 1 .. Len(job) + 1 : Cancel(j)
          \/ \E j \in Jobs : Poll(j)
          \/ \E j \in Jobs : \E t \in running[j] : \E o \in {"ok", "fail", "err"} : Finish(j, t, o)
          \/ Tick
          \/ \E p \in P : \E v \in 0 .. Len(VerTable) : Reload(p, v)
          \/ Save \/ ShutdownBegin \/ ShutdownForce \/ LongAdv \/ Restart

Next == (Internal \/ Client) /\ obs' = IF Gen THEN obs ELSE ObsSt'   \* (= ObsNext, defined below)

Spec == Init /\ [][Next]_vars

\* the part of the state that decides what can happen next (history variables and the bounding counters left out):
\* the quotient of the reachable graph by this projection is what the edge-covering scripts are planned on
CoreState == <<cfgv, epoch, job, stage, sched, running, rctx, cancelPending, waitList, shut, store, logs, persist>>
IsInitCore == job = <<>> /\ shut = "no" /\ \A p \in P : epoch[p] = 0

\* compact view of a state for TLC error traces (ALIAS in the cfg files)
Alias == [ev |-> ev.k, op |-> ToString(<<last.op, last.p, last.j, last.t, last.o, last.res>>), cfgv |-> cfgv, shut |-> shut, persist |-> ToString(persist),
          wl |-> ToString(waitList), cancelPending |-> cancelPending,
          jobs |-> [j \in Jobs |-> ToString(<<job[j].ver, IF job[j].present THEN "P" ELSE "-", IF job[j].started THEN "S" ELSE "-",
                                     IF job[j].completed THEN "C" ELSE "-", IF job[j].canceled THEN "X" ELSE "-", job[j].lastErr,
                                     job[j].timer, job[j].el, job[j].age, sched[j].pc, running[j],
                                     [t \in Tasks(j) |-> job[j].rep[t].status],
                                     IF store[j].present THEN "stored" ELSE "nostore", logs[j]>>)],
          quiet |-> obs.quiet, idle |-> obs.idle, ostore |-> ToString(obs.store), agrees |-> Pr!StoreAgrees, pwi |-> Pr!C11_PersistWithinInterval, phase |-> obs.phase, listed |-> ToString([j \in Jobs |-> obs.jobs[j].listed])]

\* fairness for the liveness configs: goroutines run, timers fire, tasks terminate, loops poll
ObsNext == obs' = IF Gen THEN obs ELSE ObsSt'
Fair == /\ \A j \in 1 .. MaxJobs : /\ WF_vars(FirstStep(j) /\ ObsNext) /\ WF_vars(CancelDeliver(j) /\ ObsNext)
                                   /\ WF_vars(JobComplete(j) /\ ObsNext) /\ WF_vars(TimerFire(j) /\ ObsNext)
                                   /\ WF_vars(Poll(j) /\ ObsNext)
                                   /\ WF_vars((\E t \in 1 .. 4 : Finish(j, t, "ok")) /\ ObsNext)
        /\ WF_vars(Tick /\ ObsNext) /\ WF_vars(PersistSave /\ ObsNext) /\ WF_vars(ShutdownFinish /\ ObsNext) /\ WF_vars(LongAdv /\ ObsNext)
FairSpec == Spec /\ Fair

(* the Props formulas under the refinement mapping, named for the cfg files *)
PrC01_LimitAtStart == Pr!C01_LimitAtStart
PrC01_RunInsideSpan == Pr!C01_RunInsideSpan
PrC01_RunLimit == Pr!C01_RunLimit
PrC02_AtMostOnce == Pr!C02_AtMostOnce
PrC02_DepsFirst == Pr!C02_DepsFirst
PrC02_SuccessMeansAll == Pr!C02_SuccessMeansAll
PrC02_CyclicNeverRuns == Pr!C02_CyclicNeverRuns
PrC02_AcyclicCompletes == Pr!C02_AcyclicCompletes
PrC03_NoIdleHead == Pr!C03_NoIdleHead
PrC03_Drained == Pr!C03_Drained
PrC04_NotStartedNeverRuns == Pr!C04_NotStartedNeverRuns
PrC04_StopDelivered == Pr!C04_StopDelivered
PrC04_NoNewTaskAfterStop == Pr!C04_NoNewTaskAfterStop
PrC04_ReportedCanceled == Pr!C04_ReportedCanceled
PrC04_Results == Pr!C04_Results
PrC05_Table == Pr!C05_Table
PrC05_RejectNoTrace == Pr!C05_RejectNoTrace
PrC05_Bound == Pr!C05_Bound
PrC05_UndefinedRejected == Pr!C05_UndefinedRejected
PrC06_Fifo == Pr!C06_Fifo
PrC07_NotBefore == Pr!C07_NotBefore
PrC07_NeverStartedNeverRuns == Pr!C07_NeverStartedNeverRuns
PrC07_NewestWins == Pr!C07_NewestWins
PrC07_NewestRuns == Pr!C07_NewestRuns
PrC08_NoRunAfterFailedDep == Pr!C08_NoRunAfterFailedDep
PrC08_FailFast == Pr!C08_FailFast
PrC08_FailFastNoNewTask == Pr!C08_FailFastNoNewTask
PrC08_Continue == Pr!C08_Continue
PrC08_VerdictSound == Pr!C08_VerdictSound
PrC08_NoRunningAfterCompleted == Pr!C08_NoRunningAfterCompleted
PrC10_AllTerminal == Pr!C10_AllTerminal
PrC10_NoGhosts == Pr!C10_NoGhosts
PrC10_SameSet == Pr!C10_SameSet
PrC10_FinishedFaithful == Pr!C10_FinishedFaithful
PrC10_NoGhostCapacity == Pr!C10_NoGhostCapacity
PrC11_AllTerminal == Pr!C11_AllTerminal
PrC11_StoreMatches == Pr!C11_StoreMatches
PrC11_RejectAfter == Pr!C11_RejectAfter
PrC11_GracefulRunsOut == Pr!C11_GracefulRunsOut
PrC11_ForcedCancels == Pr!C11_ForcedCancels
PrC11_ForcedStops == Pr!C11_ForcedStops
PrC11_PersistWithinInterval == Pr!C11_PersistWithinInterval
PrC12_KeepsUnfinished == Pr!C12_KeepsUnfinished
PrC12_NoSettingsNoRemoval == Pr!C12_NoSettingsNoRemoval
PrC12_NewestFirstClosure == Pr!C12_NewestFirstClosure
PrC12_CountBound == Pr!C12_CountBound
PrC12_PeriodBound == Pr!C12_PeriodBound
PrC12_UndefinedPurged == Pr!C12_UndefinedPurged
PrC12_ThreeViewsAgree == Pr!C12_ThreeViewsAgree
PrC15_SchedulableIffAccepted == Pr!C15_SchedulableIffAccepted
PrC15_RunningIffExecuting == Pr!C15_RunningIffExecuting
PrC15_ListedFromReturn == Pr!C15_ListedFromReturn
PrC15_NewestFirst == Pr!C15_NewestFirst
PrC15_TimesOrdered == Pr!C15_TimesOrdered
PrC15_TaskOrder == Pr!C15_TaskOrder
PrC16_SnapshotRuns == Pr!C16_SnapshotRuns
PrC16_ReloadIsInert == Pr!C16_ReloadIsInert
PrC16_AllTerminalAtDrain == Pr!C16_AllTerminalAtDrain

-----------------------------------------------------------------------------
(* model-level sanity invariants (about the design itself) *)

TypeOK == /\ \A p \in P : \A i \in 1 .. Len(waitList[p]) : waitList[p][i] \in Jobs
WaitListSound == \A p \in P : \A i \in 1 .. Len(waitList[p]) :
                    LET j == waitList[p][i] IN ~job[j].started /\ ~job[j].canceled /\ job[j].p = p /\ job[j].present
WaitListComplete == \A j \in Jobs : (job[j].present /\ ~job[j].started /\ ~job[j].canceled /\ shut = "no")
                    => \E i \in 1 .. Len(waitList[job[j].p]) : waitList[job[j].p][i] = j

\* temporal forms (checked under FairSpec)
L_C03 == \A j \in 1 .. MaxJobs :
            (j \in Jobs /\ job[j].present /\ ~job[j].started /\ ~job[j].canceled)
               ~> (j \in Jobs /\ (job[j].started \/ job[j].canceled \/ ~Def(job[j].p) \/ ~job[j].present))
L_C04 == \A j \in 1 .. MaxJobs : (j \in cancelPending) ~> (j \in Jobs /\ (job[j].completed \/ ~job[j].present))
L_C11 == (shut \in {"begun", "forced", "finishing"}) ~> (shut = "returned")
=============================================================================

------------------------------ MODULE Prunner ------------------------------
(***************************************************************************)
(* Implementation-shaped design of prunner's PipelineRunner (prunner.go)    *)
(* and of the per-job taskctl.Scheduler loop (taskctl/scheduler.go).        *)
(*                                                                         *)
(* One action per critical section of the code (each exported operation     *)
(* and each callback takes PipelineRunner.mx), named after the function.    *)
(* Variables mirror the fields of PipelineRunner / PipelineJob / Scheduler. *)
(* The observable vocabulary of Props.tla is a state function of these      *)
(* variables (ObsSt) plus a few history variables (runs, stop, ack, last).  *)
(*                                                                         *)
(* Time: the code runs under a virtual clock in the conformance harness.    *)
(* The model keeps, per waiting job, the number of ticks since acceptance   *)
(* (saturating); a start timer fires exactly when due (urgent), asynchronous *)
(* goroutine steps (cancel delivery, first scheduler pass, completion) run  *)
(* before the client can act again ("quiescence"), scheduler polls are not  *)
(* tied to ticks (the poll period is much shorter than a start delay).      *)
(*                                                                         *)
(* Deliberate abstractions are listed in /verif/DESIGN.md section 4.2.      *)
(***************************************************************************)
EXTENDS Integers, Sequences, FiniteSets, TLC

CONSTANTS
  NP,          \* number of pipelines
  MaxJobs,     \* bound on accepted jobs
  VerTable,    \* sequence of definition versions (same shape as the trace's vers table)
  InitCfgs,    \* set of initial configurations: sequences (per pipeline) of version ids, 0 = undefined
  Reloads,     \* set of <<p, v>>: reload pipeline p to version v (v = 0: undefine)
  MaxReloads,
  MaxTicks,    \* bound on Tick steps
  BadKinds,    \* subset of {"none", "reserved"}
  MaxOps,      \* bound on client operations (schedule/cancel/reload/save/..), keeps the graph finite
  Gen,         \* TRUE: record the controllable steps in hist (script generation by simulation)
  Features     \* subset of {"cancel", "unknowncancel", "save", "shutdown", "restart"}

Nil == 0
DMAX == 2      \* ticks are counted up to the largest delay in the catalogue

VARIABLES
  cfgv,        \* [1..NP -> version id or 0]     r.defs
  epoch,       \* [1..NP -> Nat]                  number of reloads seen by the pipeline
  job,         \* sequence of job records         r.jobsByID (index = acceptance order)
  stage,       \* [job -> [task -> status]]       scheduler's own stage status
  sched,       \* [job -> [pc, cancelled, lastErr]]
  running,     \* [job -> set of tasks with an open Run]  (runner wait group)
  rctx,        \* [job -> BOOLEAN]                runner context cancelled
  cancelPending, \* set of jobs whose cancel goroutine has not run yet
  waitList,    \* [1..NP -> Seq(job)]             r.waitListByPipeline
  shut,        \* "no" | "begun" | "forced" | "returned"
  nops, nreloads, nticks,
  \* history variables (observations of the injected runner and of API results)
  runs,        \* [job -> [task -> [begun, outcome, begunTick, endTick]]]
  stop,        \* [job -> [n, begunBefore]]
  ack,         \* [job -> record]
  last,        \* last client operation and its result
  ev,          \* last event
  obs,         \* = ObsSt, the observable vocabulary of the current state (stored so that TLC computes it once)
  pre,         \* vocabulary at the last quiescent state strictly before this one
  clock,       \* constant 0 (the recorded traces carry real timestamps in begunAt/endedAt)
  hist         \* controllable steps taken so far (script generation)

vars == <<cfgv, epoch, job, stage, sched, running, rctx, cancelPending, waitList, shut,
          nops, nreloads, nticks, runs, stop, ack, last, ev, obs, pre, clock, hist>>

-----------------------------------------------------------------------------
(* helpers *)

Jobs == 1 .. Len(job)
P == 1 .. NP
Ver(j) == VerTable[job[j].ver]
Tasks(j) == 1 .. Len(Ver(j).tasks)
DepsOf(v, t) == {v.tasks[t].deps[i] : i \in 1 .. Len(v.tasks[t].deps)}
Def(p) == cfgv[p] # 0
CurDef(p) == VerTable[cfgv[p]]

IsRunning(jb, j) == jb[j].started /\ ~jb[j].completed /\ ~jb[j].canceled
RunCount(jb, p) == Cardinality({j \in 1 .. Len(jb) : jb[j].present /\ jb[j].p = p /\ IsRunning(jb, j)})

SeqRemove(s, x) == SelectSeq(s, LAMBDA y : y # x)

TimerPending(jb, j) == jb[j].timer = "armed"

\* resolveScheduleAction(pipeline, ignoreStartDelay)
ResolveAction(jb, wl, p, ignoreDelay) ==
  IF ~Def(p) THEN "queue"     \* zero-value definition: Concurrency 0, no limit, append
  ELSE LET d == CurDef(p) IN
       IF RunCount(jb, p) >= d.conc \/ (d.delay > 0 /\ ~ignoreDelay)
       THEN IF d.qlimit = 0 THEN "noqueue"
            ELSE IF d.replace /\ Len(wl[p]) > 0 THEN "replace"
            ELSE IF d.qlimit >= 0 /\ Len(wl[p]) >= d.qlimit THEN "queuefull"
            ELSE "queue"
       ELSE "start"

\* isSchedulable(pipeline): transcribed separately from the admission action
Schedulable(p) == ResolveAction(job, waitList, p, FALSE) \in {"replace", "queue", "start"}

-----------------------------------------------------------------------------
(* startJob / startJobsOnWaitList on a bundle S = [job, wl, sched, stage] *)

GraphBad(jb, j) == VerTable[jb[j].ver].cyclic \/ jb[j].bad = "reserved"
GraphErr(jb, j) == IF jb[j].bad = "reserved" THEN "reserved" ELSE "cycle"

\* startJob(job): refused if canceled; graph error => canceled + LastError (and a nested dequeue,
\* folded into the recursion of Dequeue); else started with a fresh scheduler goroutine
StartJ(S, j) ==
  IF S.job[j].canceled THEN S
  ELSE IF GraphBad(S.job, j)
       THEN [S EXCEPT !.job[j].canceled = TRUE, !.job[j].lastErr = GraphErr(S.job, j)]
       ELSE [S EXCEPT !.job[j].started = TRUE, !.job[j].startEl = S.job[j].el, !.sched[j].pc = "fresh"]

\* startJobsOnWaitList(pipeline), with the semantics of the repaired code: the popped list is
\* what a nested call sees, the head starts iff it has no pending timer and a slot is free
RECURSIVE Dequeue(_, _)
Dequeue(S, p) ==
  IF S.wl[p] = <<>> THEN S
  ELSE LET h == Head(S.wl[p]) IN
       IF TimerPending(S.job, h) \/ ~Def(p) \/ RunCount(S.job, p) >= CurDef(p).conc
       THEN S
       ELSE Dequeue(StartJ([S EXCEPT !.wl[p] = Tail(@)], h), p)

Bundle == [job |-> job, wl |-> waitList, sched |-> sched]
ApplyBundle(S) == /\ job' = S.job /\ waitList' = S.wl /\ sched' = S.sched

-----------------------------------------------------------------------------
(* quiescence: the client (driver) acts only when no goroutine can run and no timer is due *)

TimerDue(j) == job[j].timer = "armed" /\ job[j].el >= Ver(j).delay
Quiescent == /\ cancelPending = {}
             /\ \A j \in Jobs : sched[j].pc \notin {"fresh", "exited"} /\ ~TimerDue(j)
             /\ shut \notin {"polling"}

-----------------------------------------------------------------------------
(* observable vocabulary (refinement mapping for Props) *)

StatusOf(j, t) == job[j].rep[t].status
TaskObs(j, t) == [present |-> TRUE, pos |-> t, status |-> StatusOf(j, t),
                  hasStart |-> runs[j][t].begun > 0 /\ ~Ver(j).tasks[t].empty, startAt |-> 0,
                  hasEnd |-> FALSE, endAt |-> 0,
                  errored |-> job[j].rep[t].errored, canceled |-> job[j].rep[t].canceled, exit |-> 0]
BASE == 100
JobObs(j) == [p |-> job[j].p, ver |-> job[j].ver, epoch |-> job[j].epoch,
              accAt |-> BASE - job[j].el, retAt |-> BASE - job[j].el, bad |-> job[j].bad,
              listed |-> job[j].present, inList |-> job[j].present, byId |-> job[j].present, listPos |-> Len(job) + 1 - j,
              started |-> job[j].started, startAt |-> BASE - job[j].el + job[j].startEl,
              completed |-> job[j].completed, canceled |-> job[j].canceled,
              errored |-> \E t \in Tasks(j) : job[j].rep[t].errored,
              lastErr |-> job[j].lastErr, hasEnd |-> job[j].completed, endAt |-> BASE,
              createdAt |-> j, ntasks |-> Len(Ver(j).tasks), extraTasks |-> 0,
              tasks |-> [t \in Tasks(j) |-> TaskObs(j, t)], jsonAgree |-> TRUE]
RunObs(j, t) == [begun |-> runs[j][t].begun, refused |-> 0, open |-> t \in running[j], outcome |-> runs[j][t].outcome,
                 begunAt |-> runs[j][t].begunAt, endedAt |-> runs[j][t].endedAt, cmdOk |-> TRUE, envOk |-> TRUE,
                 execAtBegin |-> runs[j][t].execAtBegin, execAtEnd |-> runs[j][t].execAtEnd, unknown |-> FALSE]
Phase == IF shut = "no" THEN "run" ELSE "shutdown"
ObsSt == [now |-> BASE, phase |-> Phase, quiet |-> Quiescent,
          cfg |-> [p \in P |-> [def |-> Def(p), ver |-> cfgv[p], epoch |-> epoch[p]]],
          jobs |-> [j \in Jobs |-> JobObs(j)],
          pipes |-> [p \in P |-> [listed |-> Def(p), schedulable |-> Def(p) /\ Schedulable(p),
                                  running |-> Def(p) /\ RunCount(job, p) > 0]],
          runs |-> [j \in Jobs |-> [t \in Tasks(j) |-> RunObs(j, t)]],
          stop |-> [j \in Jobs |-> stop[j]],
          ack |-> [j \in Jobs |-> ack[j]],
          extra |-> 0, last |-> last, shut |-> IF shut = "no" THEN "no" ELSE IF shut = "returned" THEN "returned" ELSE "begun"]

Pr == INSTANCE Props WITH st <- obs, ev <- ev, pre <- pre, tbl <- VerTable

\* pre' : the last quiescent vocabulary strictly before the next state
PreNext == pre' = IF obs.quiet THEN obs ELSE pre

-----------------------------------------------------------------------------
(* initial state *)

NoLast == [op |-> "none", p |-> 0, j |-> 0, t |-> 0, o |-> "", res |-> "ok", err |-> "", new |-> 0]
NoEv == [k |-> "Reset", j |-> 0, t |-> 0, o |-> ""]

Init ==
  /\ cfgv \in InitCfgs
  /\ epoch = [p \in P |-> 0]
  /\ job = <<>> /\ stage = <<>> /\ sched = <<>> /\ running = <<>> /\ rctx = <<>>
  /\ cancelPending = {}
  /\ waitList = [p \in P |-> <<>>]
  /\ shut = "no"
  /\ nops = 0 /\ nreloads = 0 /\ nticks = 0
  /\ runs = <<>> /\ stop = <<>> /\ ack = <<>>
  /\ last = NoLast /\ ev = NoEv
  /\ clock = 0
  /\ hist = IF Gen THEN [p \in P |-> [op |-> "init", p |-> p, j |-> 0, t |-> 0, o |-> "", v |-> cfgv[p], bad |-> "none"]] ELSE <<>>
  /\ obs = ObsSt
  /\ pre = obs

Step(s) == hist' = IF Gen THEN Append(hist, s) ELSE hist
NoStep == hist' = hist
Ticked == clock' = clock

-----------------------------------------------------------------------------
(* ScheduleAsync(p) *)

NewJob(p, bad) ==
  LET v == CurDef(p) IN
  [p |-> p, ver |-> cfgv[p], epoch |-> epoch[p], bad |-> bad, present |-> TRUE,
   started |-> FALSE, completed |-> FALSE, canceled |-> FALSE, lastErr |-> "", creq |-> FALSE,
   timer |-> IF v.delay > 0 THEN "armed" ELSE "none", el |-> 0, startEl |-> 0,
   rep |-> [t \in 1 .. Len(v.tasks) |-> [status |-> "waiting", errored |-> FALSE, canceled |-> FALSE]]]

Schedule(p, bad) ==
  /\ Quiescent /\ nops < MaxOps
  /\ nops' = nops + 1
  /\ LET act == IF shut # "no" THEN "shutdown" ELSE IF ~Def(p) THEN "undefined"
                ELSE ResolveAction(job, waitList, p, FALSE)
         n == Len(job) + 1
     IN
     IF act \in {"shutdown", "undefined", "noqueue", "queuefull"}
     THEN /\ last' = [NoLast EXCEPT !.op = "schedule", !.p = p, !.res = "err", !.err = act]
          /\ UNCHANGED <<job, stage, sched, running, rctx, waitList, runs, stop, ack>>
     ELSE /\ n <= MaxJobs
          /\ LET v == CurDef(p)
                 nt == Len(v.tasks)
                 jb0 == Append(job, NewJob(p, bad))
                 sc0 == Append(sched, [pc |-> "none", cancelled |-> FALSE, lastErr |-> ""])
                 S0 == [job |-> jb0, wl |-> waitList, sched |-> sc0]
                 S1 == CASE act = "queue" -> [S0 EXCEPT !.wl[p] = Append(@, n)]
                         [] act = "replace" ->
                              LET prev == waitList[p][Len(waitList[p])] IN
                              [S0 EXCEPT !.job[prev].canceled = TRUE, !.job[prev].timer = "none",
                                         !.wl[p] = [@ EXCEPT ![Len(@)] = n]]
                         [] act = "start" -> StartJ(S0, n)
             IN /\ ApplyBundle(S1)
                /\ stage' = Append(stage, [t \in 1 .. nt |-> "waiting"])
                /\ running' = Append(running, {})
                /\ rctx' = Append(rctx, FALSE)
                /\ runs' = Append(runs, [t \in 1 .. nt |-> [begun |-> 0, outcome |-> "none", begunAt |-> 0, endedAt |-> 0, execAtBegin |-> FALSE, execAtEnd |-> FALSE]])
                /\ stop' = Append(stop, [n |-> 0, at |-> 0, begunBefore |-> [t \in 1 .. nt |-> FALSE], openBefore |-> [t \in 1 .. nt |-> FALSE]])
                /\ ack' = Append(ack, [n |-> 0, at |-> 0, wasStarted |-> FALSE, wasFinished |-> FALSE,
                                       okAtAck |-> [t \in 1 .. nt |-> FALSE], openAtAck |-> [t \in 1 .. nt |-> FALSE],
                                       failedAtAck |-> FALSE, stopBefore |-> FALSE])
                /\ last' = [NoLast EXCEPT !.op = "schedule", !.p = p, !.new = n]
  /\ ev' = [k |-> "Op", j |-> 0, t |-> 0, o |-> ""]
  /\ Step([op |-> "schedule", p |-> p, j |-> 0, t |-> 0, o |-> "", v |-> 0, bad |-> bad])
  /\ PreNext /\ Ticked
  /\ UNCHANGED <<cfgv, epoch, cancelPending, shut, nreloads, nticks>>

-----------------------------------------------------------------------------
(* CancelJob(id) -> cancelJobInternal *)

\* the not-started branch with the repaired semantics (D2): flags, timer stopped, removed from
\* the wait list (order preserved), then a dequeue attempt for the pipeline
CancelNotStarted(S, j) ==
  LET p == S.job[j].p
      S1 == [S EXCEPT !.job[j].canceled = TRUE, !.job[j].timer = "none",
                      !.job[j].rep = [t \in DOMAIN @ |-> [@[t] EXCEPT !.canceled = TRUE]],
                      !.wl[p] = SeqRemove(@, j)]
  IN Dequeue(S1, p)

AckRec(j) ==
  IF ack[j].n > 0 THEN [ack[j] EXCEPT !.n = 2]
  ELSE [n |-> 1, at |-> 0, wasStarted |-> job[j].started, wasFinished |-> job[j].completed \/ job[j].canceled,
        okAtAck |-> [t \in Tasks(j) |-> runs[j][t].begun > 0 /\ t \notin running[j] /\
                       (runs[j][t].outcome = "ok" \/ (runs[j][t].outcome = "fail" /\ Ver(j).tasks[t].allow))],
        openAtAck |-> [t \in Tasks(j) |-> t \in running[j]],
        failedAtAck |-> \E t \in Tasks(j) : runs[j][t].outcome = "fail" /\ ~Ver(j).tasks[t].allow,
        stopBefore |-> stop[j].n > 0]

Cancel(j) ==
  /\ Quiescent /\ nops < MaxOps /\ "cancel" \in Features
  /\ nops' = nops + 1
  /\ j \in Jobs \/ (j = Len(job) + 1 /\ "unknowncancel" \in Features)
  /\ IF j \notin Jobs \/ ~job[j].present
     THEN /\ last' = [NoLast EXCEPT !.op = "cancel", !.j = 0, !.res = "err", !.err = "notfound"]
          /\ UNCHANGED <<job, sched, waitList, cancelPending, ack>>
     ELSE IF job[j].canceled
     THEN /\ last' = [NoLast EXCEPT !.op = "cancel", !.j = j]
          /\ ack' = [ack EXCEPT ![j] = AckRec(j)]
          /\ UNCHANGED <<job, sched, waitList, cancelPending>>
     ELSE IF job[j].completed
     THEN /\ last' = [NoLast EXCEPT !.op = "cancel", !.j = j, !.res = "err", !.err = "completed"]
          /\ UNCHANGED <<job, sched, waitList, cancelPending, ack>>
     ELSE IF ~job[j].started
     THEN /\ ApplyBundle(CancelNotStarted(Bundle, j))
          /\ last' = [NoLast EXCEPT !.op = "cancel", !.j = j]
          /\ ack' = [ack EXCEPT ![j] = AckRec(j)]
          /\ UNCHANGED cancelPending
     ELSE /\ cancelPending' = cancelPending \cup {j}
          /\ job' = [job EXCEPT ![j].creq = TRUE]
          /\ last' = [NoLast EXCEPT !.op = "cancel", !.j = j]
          /\ ack' = [ack EXCEPT ![j] = AckRec(j)]
          /\ UNCHANGED <<sched, waitList>>
  /\ ev' = [k |-> "Op", j |-> j, t |-> 0, o |-> ""]
  /\ Step([op |-> "cancel", p |-> 0, j |-> j, t |-> 0, o |-> "", v |-> 0, bad |-> "none"])
  /\ PreNext /\ Ticked
  /\ UNCHANGED <<cfgv, epoch, stage, running, rctx, shut, nreloads, nticks, runs, stop>>

-----------------------------------------------------------------------------
(* the cancel goroutine: Scheduler.Cancel() = set flag; runner.Cancel() = cancel context and   *)
(* wait for the running tasks, which return context.Canceled (HandleTaskChange + stage error)  *)

CancelDeliver(j) ==
  /\ j \in cancelPending
  /\ cancelPending' = cancelPending \ {j}
  /\ rctx' = [rctx EXCEPT ![j] = TRUE]
  /\ running' = [running EXCEPT ![j] = {}]
  /\ LET R == running[j]
         hard == \E t \in R : ~Ver(j).tasks[t].allow
     IN /\ stage' = [stage EXCEPT ![j] = [t \in DOMAIN @ |-> IF t \in R THEN (IF Ver(j).tasks[t].allow THEN "done" ELSE "error") ELSE @[t]]]
        /\ job' = [job EXCEPT ![j].rep = [t \in DOMAIN @ |-> IF t \in R THEN [@[t] EXCEPT !.canceled = TRUE, !.status = "canceled"] ELSE @[t]]]
        \* the stage goroutines assign lastErr in an order that is a race when a task failed in the same instant
        /\ \E le \in (IF hard THEN (IF sched[j].lastErr = "exit" THEN {"exit", "canceled"} ELSE {"canceled"}) ELSE {sched[j].lastErr}) :
              sched' = [sched EXCEPT ![j].cancelled = TRUE, ![j].lastErr = le]
        /\ runs' = [runs EXCEPT ![j] = [t \in DOMAIN @ |-> IF t \in R THEN [@[t] EXCEPT !.outcome = "canceled", !.endedAt = clock, !.execAtEnd = IsRunning(job, j)] ELSE @[t]]]
        /\ stop' = [stop EXCEPT ![j] = IF @.n > 0 THEN [@ EXCEPT !.n = 2]
                                        ELSE [n |-> 1, at |-> 0, begunBefore |-> [t \in Tasks(j) |-> runs[j][t].begun > 0],
                                              openBefore |-> [t \in Tasks(j) |-> t \in R]]]
  /\ ev' = [k |-> "RunnerCancel", j |-> j, t |-> 0, o |-> ""]
  /\ NoStep /\ PreNext /\ Ticked
  /\ UNCHANGED <<cfgv, epoch, waitList, shut, nops, nreloads, nticks, ack, last>>

-----------------------------------------------------------------------------
(* one pass of Scheduler.Schedule (taskctl/scheduler.go)                                       *)

IsDone(j) == \A t \in Tasks(j) : stage[j][t] \notin {"waiting", "running"}

\* stages that checkStatus marks canceled: a dependency errored (not allow_failure) or canceled;
\* the chain of no-op passes that propagates the mark is collapsed (no notification is sent)
RECURSIVE Blocked(_, _, _)
Blocked(j, sg, n) ==
  IF n = 0 THEN sg
  ELSE Blocked(j, [t \in DOMAIN sg |-> IF sg[t] = "waiting" /\ \E d \in DepsOf(Ver(j), t) :
                                           (sg[d] = "error" /\ ~Ver(j).tasks[d].allow) \/ sg[d] = "canceled"
                                        THEN "canceled" ELSE sg[t]], n - 1)

Ready(j, sg) == {t \in Tasks(j) : sg[t] = "waiting" /\ \A d \in DepsOf(Ver(j), t) :
                    sg[d] = "done" \/ (sg[d] = "error" /\ Ver(j).tasks[d].allow)}

SchedPass(j) ==
  IF IsDone(j) \/ sched[j].cancelled
  THEN /\ sched' = [sched EXCEPT ![j].pc = "exited"]
       /\ UNCHANGED <<stage, running, job, runs>>
  ELSE LET sg1 == Blocked(j, stage[j], Len(Ver(j).tasks))
           R == Ready(j, sg1)
           E == {t \in R : Ver(j).tasks[t].empty}      \* empty script: Run returns at once, no callbacks
       IN /\ stage' = [stage EXCEPT ![j] = [t \in DOMAIN sg1 |-> IF t \in E THEN "done" ELSE IF t \in R THEN "running" ELSE sg1[t]]]
          /\ running' = [running EXCEPT ![j] = @ \cup (R \ E)]
          /\ job' = [job EXCEPT ![j].rep = [t \in DOMAIN @ |-> IF t \in E THEN [@[t] EXCEPT !.status = "done"]
                                                                  ELSE IF t \in R THEN [@[t] EXCEPT !.status = "running"] ELSE @[t]]]
          /\ runs' = [runs EXCEPT ![j] = [t \in DOMAIN @ |-> IF t \in R
                          THEN [@[t] EXCEPT !.begun = @ + 1, !.begunAt = clock, !.execAtBegin = IsRunning(job, j),
                                            !.outcome = IF t \in E THEN "ok" ELSE @, !.endedAt = IF t \in E THEN clock ELSE @,
                                            !.execAtEnd = IF t \in E THEN IsRunning(job, j) ELSE @]
                          ELSE @[t]]]
          /\ sched' = [sched EXCEPT ![j].pc = "polling"]

\* first pass, right after startJob spawned the goroutine
FirstStep(j) ==
  /\ j \in Jobs /\ sched[j].pc = "fresh"
  /\ SchedPass(j)
  /\ ev' = [k |-> "Sched", j |-> j, t |-> 0, o |-> ""]
  /\ NoStep /\ PreNext /\ Ticked
  /\ UNCHANGED <<cfgv, epoch, rctx, cancelPending, waitList, shut, nops, nreloads, nticks, stop, ack, last>>

\* a later pass: the loop wakes up from its pause (the driver advances the clock to that instant)
Poll(j) ==
  /\ Quiescent
  /\ j \in Jobs /\ sched[j].pc = "polling"
  /\ SchedPass(j)
  /\ ev' = [k |-> "Op", j |-> j, t |-> 0, o |-> ""]
  /\ last' = [NoLast EXCEPT !.op = "poll", !.j = j]
  /\ Step([op |-> "poll", p |-> 0, j |-> j, t |-> 0, o |-> "", v |-> 0, bad |-> "none"])
  /\ PreNext /\ Ticked
  /\ UNCHANGED <<cfgv, epoch, rctx, cancelPending, waitList, shut, nops, nreloads, nticks, stop, ack>>

-----------------------------------------------------------------------------
(* a running task returns: HandleTaskChange (+ fail-fast cancel) + HandleStageChange           *)

Finish(j, t, o) ==
  /\ Quiescent
  /\ j \in Jobs /\ t \in running[j]
  /\ running' = [running EXCEPT ![j] = @ \ {t}]
  /\ LET allow == Ver(j).tasks[t].allow
         hardFail == o = "fail" /\ ~allow
         p == job[j].p
         failFast == hardFail /\ Def(p) /\ ~CurDef(p).cont
     IN /\ stage' = [stage EXCEPT ![j][t] = IF hardFail THEN "error" ELSE "done"]
        /\ job' = [job EXCEPT ![j].rep[t] = [status |-> IF @.canceled THEN "canceled" ELSE IF hardFail THEN "error" ELSE "done",
                                              errored |-> hardFail, canceled |-> @.canceled],
                               ![j].creq = @ \/ (failFast /\ ~job[j].canceled /\ ~job[j].completed)]
        /\ sched' = [sched EXCEPT ![j].lastErr = IF hardFail THEN "exit" ELSE @]
        \* cancelJobInternal from HandleTaskChange: the job is started, not completed; no-op if already canceled
        /\ cancelPending' = IF failFast /\ ~job[j].canceled /\ ~job[j].completed THEN cancelPending \cup {j} ELSE cancelPending
        /\ runs' = [runs EXCEPT ![j][t].outcome = o, ![j][t].endedAt = clock, ![j][t].execAtEnd = IsRunning(job, j)]
  /\ ev' = [k |-> "Op", j |-> j, t |-> t, o |-> o]
  /\ last' = [NoLast EXCEPT !.op = "finish", !.j = j, !.t = t, !.o = o]
  /\ Step([op |-> "finish", p |-> 0, j |-> j, t |-> t, o |-> o, v |-> 0, bad |-> "none"])
  /\ PreNext /\ Ticked
  /\ UNCHANGED <<cfgv, epoch, rctx, waitList, shut, nops, nreloads, nticks, stop, ack>>

-----------------------------------------------------------------------------
(* JobCompleted(id, err): the loop exited and wg.Wait() passed                                 *)

JobComplete(j) ==
  /\ j \in Jobs /\ sched[j].pc = "exited" /\ running[j] = {}
  /\ LET allFinished == \A t \in Tasks(j) : job[j].rep[t].status = "done"
         err == IF sched[j].lastErr # "" THEN sched[j].lastErr
                ELSE IF job[j].creq /\ ~allFinished THEN "canceled" ELSE ""     \* repaired D4
         S0 == [Bundle EXCEPT !.job[j].completed = TRUE, !.job[j].lastErr = err,
                              !.job[j].canceled = (err = "canceled"), !.sched[j].pc = "done"]
     IN ApplyBundle(Dequeue(S0, job[j].p))
  /\ ev' = [k |-> "JobCompleted", j |-> j, t |-> 0, o |-> ""]
  /\ NoStep /\ PreNext /\ Ticked
  /\ UNCHANGED <<cfgv, epoch, stage, running, rctx, cancelPending, shut, nops, nreloads, nticks, runs, stop, ack, last>>

-----------------------------------------------------------------------------
(* StartDelayedJob(id): the start timer fires (exactly when due)                               *)

TimerFire(j) ==
  /\ j \in Jobs /\ TimerDue(j)
  /\ IF job[j].canceled
     THEN /\ job' = [job EXCEPT ![j].timer = "none"]     \* returns early; timer object is spent
          /\ UNCHANGED <<waitList, sched>>
     ELSE ApplyBundle(Dequeue([Bundle EXCEPT !.job[j].timer = "none"], job[j].p))
  /\ ev' = [k |-> "Timer", j |-> j, t |-> 0, o |-> ""]
  /\ NoStep /\ PreNext /\ Ticked
  /\ UNCHANGED <<cfgv, epoch, stage, running, rctx, cancelPending, shut, nops, nreloads, nticks, runs, stop, ack, last>>

\* time passes by one tick for every job that has not started
Tick ==
  /\ Quiescent /\ nticks < MaxTicks
  /\ \E j \in Jobs : job[j].timer = "armed"
  /\ nticks' = nticks + 1
  /\ job' = [j \in Jobs |-> IF ~job[j].started /\ job[j].el < DMAX THEN [job[j] EXCEPT !.el = @ + 1] ELSE job[j]]
  /\ ev' = [k |-> "Op", j |-> 0, t |-> 0, o |-> ""]
  /\ last' = [NoLast EXCEPT !.op = "tick"]
  /\ Step([op |-> "tick", p |-> 0, j |-> 0, t |-> 0, o |-> "", v |-> 0, bad |-> "none"])
  /\ PreNext /\ Ticked
  /\ UNCHANGED <<cfgv, epoch, stage, sched, running, rctx, cancelPending, waitList, shut, nops, nreloads, runs, stop, ack>>

-----------------------------------------------------------------------------
(* ReplaceDefinitions *)

Reload(p, v) ==
  /\ Quiescent /\ nreloads < MaxReloads /\ <<p, v>> \in Reloads /\ cfgv[p] # v
  /\ nreloads' = nreloads + 1
  /\ cfgv' = [cfgv EXCEPT ![p] = v]
  /\ epoch' = [epoch EXCEPT ![p] = @ + 1]
  /\ ev' = [k |-> "Op", j |-> 0, t |-> 0, o |-> ""]
  /\ last' = [NoLast EXCEPT !.op = "reload", !.p = p]
  /\ Step([op |-> "reload", p |-> p, j |-> 0, t |-> 0, o |-> "", v |-> v, bad |-> "none"])
  /\ PreNext /\ Ticked
  /\ UNCHANGED <<job, stage, sched, running, rctx, cancelPending, waitList, shut, nops, nticks, runs, stop, ack>>

-----------------------------------------------------------------------------

Internal == \/ \E j \in Jobs : FirstStep(j) \/ CancelDeliver(j) \/ JobComplete(j) \/ TimerFire(j)

Client == \/ \E p \in P : \E b \in BadKinds : Schedule(p, b)
          \/ \E j \in 1 .. Len(job) + 1 : Cancel(j)
          \/ \E j \in Jobs : Poll(j)
          \/ \E j \in Jobs : \E t \in running[j] : \E o \in {"ok", "fail"} : Finish(j, t, o)
          \/ Tick
          \/ \E p \in P : \E v \in 0 .. Len(VerTable) : Reload(p, v)

Next == (Internal \/ Client) /\ obs' = IF Gen THEN obs ELSE ObsSt'

Spec == Init /\ [][Next]_vars

\* fairness for the liveness configs: goroutines run, timers fire, tasks terminate, loops poll
Fair == /\ \A j \in 1 .. MaxJobs : WF_vars(FirstStep(j)) /\ WF_vars(CancelDeliver(j)) /\ WF_vars(JobComplete(j))
                                    /\ WF_vars(TimerFire(j)) /\ WF_vars(Poll(j))
                                    /\ WF_vars(\E t \in 1 .. 4 : Finish(j, t, "ok"))
        /\ WF_vars(Tick)
FairSpec == Spec /\ Fair


(* the Props formulas under the refinement mapping, named for the cfg files *)
PrC01_LimitAtStart == Pr!C01_LimitAtStart
PrC01_RunInsideSpan == Pr!C01_RunInsideSpan
PrC01_RunLimit == Pr!C01_RunLimit
PrC02_AtMostOnce == Pr!C02_AtMostOnce
PrC02_DepsFirst == Pr!C02_DepsFirst
PrC08_NoRunAfterFailedDep == Pr!C08_NoRunAfterFailedDep
PrC02_SuccessMeansAll == Pr!C02_SuccessMeansAll
PrC02_CyclicNeverRuns == Pr!C02_CyclicNeverRuns
PrC02_AcyclicCompletes == Pr!C02_AcyclicCompletes
PrC03_NoIdleHead == Pr!C03_NoIdleHead
PrC03_Drained == Pr!C03_Drained
PrC04_NotStartedNeverRuns == Pr!C04_NotStartedNeverRuns
PrC04_StopDelivered == Pr!C04_StopDelivered
PrC04_NoNewTaskAfterStop == Pr!C04_NoNewTaskAfterStop
PrC04_ReportedCanceled == Pr!C04_ReportedCanceled
PrC04_Results == Pr!C04_Results
PrC05_Table == Pr!C05_Table
PrC05_RejectNoTrace == Pr!C05_RejectNoTrace
PrC05_Bound == Pr!C05_Bound
PrC05_UndefinedRejected == Pr!C05_UndefinedRejected
PrC06_Fifo == Pr!C06_Fifo
PrC07_NotBefore == Pr!C07_NotBefore
PrC07_NeverStartedNeverRuns == Pr!C07_NeverStartedNeverRuns
PrC07_NewestWins == Pr!C07_NewestWins
PrC07_NewestRuns == Pr!C07_NewestRuns
PrC08_FailFast == Pr!C08_FailFast
PrC08_FailFastNoNewTask == Pr!C08_FailFastNoNewTask
PrC08_Continue == Pr!C08_Continue
PrC08_VerdictSound == Pr!C08_VerdictSound
PrC08_NoRunningAfterCompleted == Pr!C08_NoRunningAfterCompleted
PrC15_SchedulableIffAccepted == Pr!C15_SchedulableIffAccepted
PrC15_RunningIffExecuting == Pr!C15_RunningIffExecuting
PrC15_ListedFromReturn == Pr!C15_ListedFromReturn
PrC15_NewestFirst == Pr!C15_NewestFirst
PrC15_TimesOrdered == Pr!C15_TimesOrdered
PrC15_TaskOrder == Pr!C15_TaskOrder
PrC16_SnapshotRuns == Pr!C16_SnapshotRuns
PrC16_ReloadIsInert == Pr!C16_ReloadIsInert
PrC16_AllTerminalAtDrain == Pr!C16_AllTerminalAtDrain
-----------------------------------------------------------------------------
(* model-level sanity invariants (about the design itself) *)

TypeOK == /\ \A p \in P : \A i \in 1 .. Len(waitList[p]) : waitList[p][i] \in Jobs
WaitListSound == \A p \in P : \A i \in 1 .. Len(waitList[p]) :
                    LET j == waitList[p][i] IN ~job[j].started /\ ~job[j].canceled /\ job[j].p = p
WaitListComplete == \A j \in Jobs : (job[j].present /\ ~job[j].started /\ ~job[j].canceled /\ shut = "no")
                    => \E i \in 1 .. Len(waitList[job[j].p]) : waitList[job[j].p][i] = j

\* temporal forms (checked under FairSpec)
L_C03 == \A j \in 1 .. MaxJobs :
            (j \in Jobs /\ ~job[j].started /\ ~job[j].canceled)
               ~> (j \in Jobs /\ (job[j].started \/ job[j].canceled \/ ~Def(job[j].p)))
L_C04 == \A j \in 1 .. MaxJobs : (j \in cancelPending) ~> (j \in Jobs /\ job[j].completed)
=============================================================================

SPECIFICATION Spec
CONSTANTS
 NP = 1
 MaxJobs = 2
 VerTable <- MCVerTable
 InitCfgs <- MCInitCfgs
 Reloads <- MCReloads
 MaxReloads = 1
 MaxTicks = 2
 BadKinds <- MCBad
 MaxOps = 3
 Features <- MCFeatures
 Gen = FALSE
CHECK_DEADLOCK FALSE
ALIAS Alias
INVARIANTS TypeOK WaitListSound WaitListComplete
 PrC01_RunLimit PrC12_KeepsUnfinished PrC12_NoSettingsNoRemoval PrC12_NewestFirstClosure PrC12_CountBound PrC12_PeriodBound PrC12_UndefinedPurged PrC12_ThreeViewsAgree PrC15_ListedFromReturn PrC15_NewestFirst

------------------------------ MODULE ObsTrace ------------------------------
(***************************************************************************)
(* TLC as run-time monitor: replays an ndjson trace recorded from the REAL  *)
(* prunner code by the harness and evaluates every formula of Props.tla at  *)
(* every step.  The module is permissive by construction - it only         *)
(* reconstructs what was observed; the verdicts are the Props formulas     *)
(* listed as INVARIANTS in the cfg.  Many traces are concatenated; a line   *)
(* with ev.k = "Reset" starts a new one.                                    *)
(***************************************************************************)
EXTENDS Props, Json

CONSTANT TraceFile

Trace == ndJsonDeserialize(TraceFile)

VARIABLE l

\* one initial state per recorded trace (its Reset line): counterexamples stay short
\* and TLC workers share the traces
Init == /\ l \in {i \in 1 .. Len(Trace) : Trace[i].ev.k = "Reset"}
        /\ st = Trace[l].st
        /\ ev = Trace[l].ev
        /\ pre = Trace[l].st
        /\ tbl = Trace[l].vers

Next == /\ l < Len(Trace)
        /\ Trace[l + 1].ev.k # "Reset"
        /\ l' = l + 1
        /\ LET r == Trace[l + 1] IN
           /\ st' = r.st
           /\ ev' = r.ev
           /\ pre' = IF st.quiet THEN st ELSE pre
           /\ tbl' = tbl

Spec == Init /\ [][Next]_<<l, st, ev, pre, tbl>>

\* error traces print only the position (the orchestrator looks the lines up)
Alias == [sid |-> Trace[l].sid, seq |-> Trace[l].seq, line |-> l]
=============================================================================

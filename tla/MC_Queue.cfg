SPECIFICATION Spec
CONSTANTS
 NP = 1
 MaxJobs = 4
 VerTable <- MCVerTable
 InitCfgs <- MCInitCfgs
 Reloads <- MCReloads
 MaxReloads = 0
 MaxTicks = 0
 BadKinds <- MCBad
 MaxOps = 5
 Features <- MCFeatures
 Gen = FALSE
CHECK_DEADLOCK FALSE
ALIAS Alias
INVARIANTS TypeOK WaitListSound WaitListComplete
 PrC01_LimitAtStart PrC01_RunLimit PrC03_NoIdleHead PrC04_NotStartedNeverRuns PrC04_ReportedCanceled
 PrC05_Table PrC05_RejectNoTrace PrC05_Bound PrC06_Fifo PrC15_SchedulableIffAccepted PrC15_RunningIffExecuting

SPECIFICATION Spec
CHECK_DEADLOCK FALSE
ALIAS Alias
INVARIANTS C18_VisibleValue C18_JobIsolation

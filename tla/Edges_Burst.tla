----------------------------- MODULE Edges_Burst -----------------------------
(* dumps every transition of the bounded model MC_Burst (one JSON object per line) for the edge-cover planner *)
EXTENDS MC_Burst, Json
ASSUME PrintT("VERS " \o ToJson(VerTable))
ASSUME PrintT("FEATS " \o ToJson(Features))
EmitEdge == PrintT("EDGE " \o ToJson([from |-> CoreState, to |-> CoreState', init |-> IsInitCore, cfg |-> cfgv, toQuiet |-> Quiescent', toView |-> ConfView(obs)',
                                      client |-> ev'.k \in {"Op", "Restart"}, step |-> [op |-> last'.op, p |-> last'.p, j |-> last'.j, t |-> last'.t, o |-> last'.o, v |-> last'.v, bad |-> last'.bad]]))
==============================================================================

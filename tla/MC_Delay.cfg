SPECIFICATION Spec
CONSTANTS
 NP = 1
 MaxJobs = 2
 VerTable <- MCVerTable
 InitCfgs <- MCInitCfgs
 Reloads <- MCReloads
 MaxReloads = 1
 MaxTicks = 3
 BadKinds <- MCBad
 MaxOps = 3
 Features <- MCFeatures
 Gen = FALSE
CHECK_DEADLOCK FALSE
ALIAS Alias
INVARIANTS TypeOK WaitListSound WaitListComplete
 PrC01_LimitAtStart PrC01_RunInsideSpan PrC01_RunLimit PrC02_AtMostOnce
 PrC03_NoIdleHead
 PrC04_NotStartedNeverRuns PrC04_ReportedCanceled PrC04_Results
 PrC05_Table PrC05_RejectNoTrace PrC05_Bound
 PrC06_Fifo
 PrC07_NotBefore PrC07_NeverStartedNeverRuns PrC07_NewestWins
 PrC15_SchedulableIffAccepted PrC15_RunningIffExecuting PrC16_ReloadIsInert

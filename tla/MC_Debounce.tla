----------------------------- MODULE MC_Debounce -----------------------------
(* debounce: start delay + replace strategy with a running job and bursts of up to three more requests *)
EXTENDS Prunner, Catalog
MCVerTable == <<
  MkVer(1, 1, 1, TRUE, 2, FALSE, GSingle, FALSE),     \* 1 delay 2 + replace (debounce), concurrency 1
  MkVer(1, 1, -1, FALSE, 0, FALSE, GSingle, FALSE)    \* 2 no delay (a job that runs at once, then reload to 1)
>>
MCInitCfgs == {<<1>>, <<2>>}
MCReloads == {<<1, 1>>}
MCBad == {"none"}
MCFeatures == {}
==============================================================================

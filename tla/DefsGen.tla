------------------------------ MODULE DefsGen ------------------------------
(* writes the case list of Defs.tla as ndjson (one case per line) for the Go probe *)
EXTENDS Defs, Json, SequencesExt

CaseSeq == SetToSeq(Cases)
ASSUME ndJsonSerialize("defs_cases.ndjson", [i \in 1 .. Len(CaseSeq) |-> [id |-> i, files |-> CaseSeq[i]]])
ASSUME PrintT(<<"cases", Cardinality(Cases)>>)

VARIABLE x
Init == x = 0
Next == x' = x
=============================================================================

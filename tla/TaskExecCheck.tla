--------------------------- MODULE TaskExecCheck ---------------------------
(* evaluates the ASSUMEs of TaskExec.tla (no behaviour) *)
EXTENDS TaskExec
VARIABLE x
Init == x = 0
Next == UNCHANGED x
Spec == Init /\ [][Next]_x
=============================================================================

------------------------------ MODULE MC_Core ------------------------------
EXTENDS Prunner, Catalog, Json

\* admission variety on pipeline 1, single-task jobs
MCVerTable == <<
  MkVer(1, 1, -1, FALSE, 0, FALSE, GSingle, FALSE),   \* 1 conc 1, unbounded append
  MkVer(1, 2, 1, FALSE, 0, FALSE, GSingle, FALSE),    \* 2 conc 2, queue 1
  MkVer(1, 1, 0, FALSE, 0, FALSE, GSingle, FALSE),    \* 3 no queue
  MkVer(1, 1, 1, TRUE, 0, FALSE, GSingle, FALSE),     \* 4 replace, queue 1
  MkVer(1, 1, 2, FALSE, 2, FALSE, GSingle, FALSE),    \* 5 delay, queue 2
  MkVer(1, 1, 1, TRUE, 2, FALSE, GSingle, FALSE),     \* 6 delay + replace (debounce)
  MkVer(1, 2, -1, TRUE, 0, FALSE, GChain, FALSE),     \* 7 conc 2 replace unbounded, chain
  MkVer(1, 1, -1, FALSE, 0, FALSE, GCycle, TRUE)      \* 8 cyclic graph
>>
MCInitCfgs == {<<v>> : v \in 1 .. 8}
MCReloads == {<<1, 1>>, <<1, 2>>, <<1, 5>>, <<1, 0>>}
MCBad == {"none", "reserved"}
MCFeatures == {"cancel", "unknowncancel"}
==============================================================================

SPECIFICATION SimSpec
CONSTANTS
 NP = 2
 MaxJobs = 6
 VerTable <- SimVerTable
 InitCfgs <- SimInitCfgs
 Reloads <- SimReloads
 MaxReloads = 2
 MaxTicks = 8
 BadKinds <- SimBad
 MaxOps = 10
 Features <- SimFeatures
 Gen = TRUE
 SimLen = 30
CHECK_DEADLOCK FALSE

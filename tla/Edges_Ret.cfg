SPECIFICATION Spec
CONSTANTS
 NP = 1
 MaxJobs = 2
 VerTable <- MCVerTable
 InitCfgs <- MCInitCfgs
 Reloads <- MCReloads
 MaxReloads = 1
 MaxTicks = 2
 BadKinds <- MCBad
 MaxOps = 3
 Features <- MCFeatures
 Gen = FALSE
CHECK_DEADLOCK FALSE
ACTION_CONSTRAINT EmitEdge

SPECIFICATION Spec
CHECK_DEADLOCK FALSE
INVARIANTS HandlerOnlyIfValid EffectOnlyIfValid ProfilerOnlyIfEnabled

SPECIFICATION Spec
CONSTANTS
 Threads = {1, 2, 3}
 Disciplined = FALSE
INVARIANT NoConflict

SPECIFICATION Spec
CHECK_DEADLOCK FALSE
ALIAS Alias
INVARIANTS C04_RealCancel C08_RealVerdict

------------------------------- MODULE Graphs -------------------------------
(***************************************************************************)
(* Generator of task graphs for C02 / C15 ("every acyclic depends_on graph  *)
(* is accepted and can run to completion; a cyclic graph never executes any *)
(* task"): a graph is built node by node, every node depends on an          *)
(* arbitrary subset of the earlier nodes (so the result is acyclic, and      *)
(* every DAG has such a construction order) and takes an arbitrary unused    *)
(* name - the order in which names sort is independent of the dependency    *)
(* order, which is what the runner's stable task sort and the upstream       *)
(* cycle detector are sensitive to.  Optionally one back edge closes a       *)
(* cycle.  `tlc -simulate` draws random graphs; every finished graph is      *)
(* printed as one JSON definition version for the script executor.          *)
(***************************************************************************)
EXTENDS Integers, Sequences, FiniteSets, TLC, Json

CONSTANTS Pool, MaxN
VARIABLES names, deps, closed, n

Init == names = <<>> /\ deps = <<>> /\ closed = FALSE /\ n \in 2 .. MaxN
Used == {names[i] : i \in 1 .. Len(names)}
AddNode == /\ ~closed /\ Len(names) < n
           /\ \E nm \in Pool \ Used : \E d \in SUBSET (1 .. Len(names)) :
                 /\ names' = Append(names, nm) /\ deps' = Append(deps, d)
           /\ UNCHANGED <<closed, n>>
\* finish: acyclic as it is, or with one back edge (later node -> earlier node that reaches it, or a self loop)
Reach(i) == LET RECURSIVE R(_, _)
                R(S, k) == IF k = 0 THEN S ELSE R(S \cup {j \in 1 .. Len(deps) : deps[j] \cap S # {}}, k - 1)
            IN R({i}, Len(deps))
SetToSeqInt(S) == LET RECURSIVE F(_)
                      F(T) == IF T = {} THEN <<>> ELSE LET m == CHOOSE x \in T : \A y \in T : x <= y IN <<m>> \o F(T \ {m})
                  IN F(S)
Emit(cyc, dd) == PrintT("GRAPH " \o ToJson([cyclic |-> cyc,
                    tasks |-> [i \in 1 .. Len(names) |-> [name |-> names[i], deps |-> SetToSeqInt(dd[i]), allow |-> FALSE, empty |-> FALSE]]]))
Close == /\ ~closed /\ Len(names) = n
         /\ \/ Emit(FALSE, deps)
            \/ \E i \in 1 .. n : \E j \in Reach(i) : Emit(TRUE, [deps EXCEPT ![i] = @ \cup {j}])
         /\ closed' = TRUE /\ UNCHANGED <<names, deps, n>>
Next == AddNode \/ Close
Spec == Init /\ [][Next]_<<names, deps, closed, n>>
=============================================================================

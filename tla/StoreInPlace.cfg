SPECIFICATION Spec
CONSTANTS
 Savers = {1}
 MaxSaves = 2
 Chunks = 2
 InPlace = TRUE
CHECK_DEADLOCK FALSE
INVARIANTS Published

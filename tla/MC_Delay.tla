------------------------------ MODULE MC_Delay ------------------------------
(* start delays, debounce (replace) and reloads that add / remove a delay while jobs wait *)
EXTENDS Prunner, Catalog
MCVerTable == <<
  MkVer(1, 1, -1, FALSE, 0, FALSE, GSingle, FALSE),   \* 1 no delay
  MkVer(1, 1, 2, FALSE, 2, FALSE, GSingle, FALSE),    \* 2 delay 2, queue 2
  MkVer(1, 1, 1, TRUE, 2, FALSE, GSingle, FALSE),     \* 3 delay 2 + replace (debounce)
  MkVer(1, 2, -1, FALSE, 1, FALSE, GSingle, FALSE)    \* 4 delay 1, conc 2
>>
MCInitCfgs == {<<v>> : v \in 1 .. 4}
MCReloads == {<<1, 1>>, <<1, 2>>, <<1, 4>>}
MCBad == {"none"}
MCFeatures == {"cancel"}
==============================================================================

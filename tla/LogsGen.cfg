INIT Init
NEXT Next
CONSTANT MaxSize = 3

-------------------------------- MODULE Defs --------------------------------
(***************************************************************************)
(* C17: loading, defaulting, validation, merging and equality of pipeline   *)
(* definitions (definition/pipelines.go, definition/loader.go), transcribed *)
(* over a finite value domain per field.                                    *)
(*                                                                         *)
(* Roles: (1) TLC enumerates the whole case space (Cases) and checks the    *)
(* design-level statements about the expected results; (2) the case list is *)
(* written out as JSON and every case is executed against the real          *)
(* LoadRecursively; (3) the recorded rows are checked by TLC against        *)
(* Expected (DefsTrace.tla).                                                *)
(***************************************************************************)
EXTENDS Integers, Sequences, FiniteSets, TLC

UNSET == -99

\* value domains (as written in the YAML file; UNSET = key absent)
ConcVals     == {UNSET, -1, 0, 1, 2}
QLimitVals   == {UNSET, -1, 0, 1, 2}
StrategyVals == {"", "append", "replace", "bogus"}
DelayVals    == {UNSET, -5, 0, 5}          \* seconds
\* task graphs: tasks a, b; b depends on a subset of {a, b, missing}
DepVals      == {<<>>, <<"a">>, <<"missing">>, <<"a", "missing">>, <<"b">>}

Pipe(name, conc, ql, strat, delay, deps) ==
  [name |-> name, conc |-> conc, qlimit |-> ql, strategy |-> strat, delay |-> delay, deps |-> deps]

GoodPipe(name) == Pipe(name, UNSET, UNSET, "", UNSET, <<"a">>)

\* all single-pipeline definitions (full product of the field domains)
AllPipes(name) == {Pipe(name, c, q, s, d, dp) : c \in ConcVals, q \in QLimitVals, s \in StrategyVals, d \in DelayVals, dp \in DepVals}

\* a case: a sequence of files (in the order of their sorted paths), each file a sequence of pipelines
SingleFileCases == {<< <<p>> >> : p \in AllPipes("p")}
\* layouts: two files with shared / distinct names, a second pipeline that is invalid, one file with two pipelines
Interesting == {GoodPipe("q"), Pipe("q", -1, UNSET, "", UNSET, <<>>), Pipe("q", 2, 0, "replace", 5, <<"a">>), Pipe("q", 1, 1, "replace", 5, <<"b">>)}
LayoutCases ==
     {<< <<GoodPipe("p")>>, <<x>> >> : x \in Interesting \cup {GoodPipe("p"), Pipe("p", 2, UNSET, "", UNSET, <<>>)}}
  \cup {<< <<x>>, <<GoodPipe("p")>> >> : x \in Interesting \cup {GoodPipe("p")}}
  \cup {<< <<GoodPipe("p"), x>> >> : x \in Interesting}
  \cup {<< <<GoodPipe("p")>>, <<GoodPipe("q")>>, <<x>> >> : x \in {GoodPipe("p"), GoodPipe("q"), GoodPipe("r")}}
  \cup {<< <<>> >>, <<>>}
Cases == SingleFileCases \cup LayoutCases

-----------------------------------------------------------------------------
(* the expected result *)

\* setDefaults + YAML decoding
Norm(p) == [name |-> p.name,
            conc |-> IF p.conc \in {UNSET, 0} THEN 1 ELSE p.conc,
            qlimit |-> p.qlimit,                             \* UNSET = nil pointer
            replace |-> p.strategy = "replace",
            delay |-> IF p.delay = UNSET THEN 0 ELSE p.delay,
            deps |-> p.deps]

DecodeOK(p) == p.strategy \in {"", "append", "replace"}

\* PipelineDef.validate
Valid(n) == /\ n.conc > 0
            /\ (n.qlimit = UNSET \/ n.qlimit >= 0)
            /\ n.delay >= 0
            /\ ~(n.delay > 0 /\ n.qlimit = 0)
            /\ \A i \in 1 .. Len(n.deps) : n.deps[i] \in {"a", "b"}

AllPipesOf(c) == UNION {{c[f][i] : i \in 1 .. Len(c[f])} : f \in 1 .. Len(c)}
NamesOf(c) == {p.name : p \in AllPipesOf(c)}
\* a name declared twice (in different files, or - YAML map - cannot happen inside one file)
Duplicate(c) == \E f \in 1 .. Len(c) : \E g \in 1 .. Len(c) : f < g /\ \E i \in 1 .. Len(c[f]) : \E k \in 1 .. Len(c[g]) : c[f][i].name = c[g][k].name

\* LoadRecursively fails as soon as one file fails; a file fails on a decode error, a duplicate or an invalid pipeline
LoadFails(c) == \/ \E p \in AllPipesOf(c) : ~DecodeOK(p) \/ ~Valid(Norm(p))
                \/ Duplicate(c)

Loaded(c) == {Norm(p) : p \in AllPipesOf(c)}

Expected(c) == IF LoadFails(c) THEN [err |-> TRUE, pipes |-> {}] ELSE [err |-> FALSE, pipes |-> Loaded(c)]

-----------------------------------------------------------------------------
(* design-level statements, checked by TLC over all cases *)

\* "loading either fails or yields definitions in which every pipeline has concurrency >= 1 (1 if unset), a non-negative
\* queue limit and delay, a non-zero queue limit if it has a delay, only dependencies on its own tasks, a known strategy
\* and a unique name across all files"
LoadedAreValid ==
  \A c \in Cases : ~Expected(c).err =>
     /\ \A n \in Expected(c).pipes : /\ n.conc >= 1 /\ (n.qlimit = UNSET \/ n.qlimit >= 0) /\ n.delay >= 0
                                     /\ (n.delay > 0 => n.qlimit # 0)
                                     /\ \A i \in 1 .. Len(n.deps) : n.deps[i] \in {"a", "b"}
     /\ Cardinality({n.name : n \in Expected(c).pipes}) = Cardinality(AllPipesOf(c))
     /\ \A p \in AllPipesOf(c) : p.conc \in {UNSET, 0} => \E n \in Expected(c).pipes : n.name = p.name /\ n.conc = 1

\* a valid file set loads to exactly what it says, independent of the file enumeration order
Perms(c) == IF Len(c) = 2 THEN {c, <<c[2], c[1]>>} ELSE {c}
OrderIndependent == \A c \in Cases : \A d \in Perms(c) : Expected(c) = Expected(d)

ASSUME LoadedAreValid
ASSUME OrderIndependent
=============================================================================

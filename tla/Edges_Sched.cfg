SPECIFICATION Spec
CONSTANTS
 NP = 1
 MaxJobs = 1
 VerTable <- MCVerTable
 InitCfgs <- MCInitCfgs
 Reloads <- MCReloads
 MaxReloads = 1
 MaxTicks = 0
 BadKinds <- MCBad
 MaxOps = 3
 Features <- MCFeatures
 Gen = FALSE
CHECK_DEADLOCK FALSE
ACTION_CONSTRAINT EmitEdge

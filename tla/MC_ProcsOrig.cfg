SPECIFICATION Spec
CONSTANTS
 Shapes <- MCShapes
 KillWhenLeaderGone = FALSE
CHECK_DEADLOCK FALSE
INVARIANTS NoSurvivor ReportedByTimeout
PROPERTIES Bounded

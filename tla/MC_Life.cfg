SPECIFICATION Spec
CONSTANTS
 NP = 1
 MaxJobs = 2
 VerTable <- MCVerTable
 InitCfgs <- MCInitCfgs
 Reloads <- MCReloads
 MaxReloads = 1
 MaxTicks = 2
 BadKinds <- MCBad
 MaxOps = 3
 Features <- MCFeatures
 Gen = FALSE
CHECK_DEADLOCK FALSE
ALIAS Alias
INVARIANTS TypeOK WaitListSound WaitListComplete
 PrC01_LimitAtStart PrC01_RunInsideSpan PrC01_RunLimit
 PrC02_AtMostOnce PrC02_SuccessMeansAll
 PrC03_NoIdleHead
 PrC04_NotStartedNeverRuns PrC04_StopDelivered PrC04_NoNewTaskAfterStop PrC04_ReportedCanceled PrC04_Results
 PrC05_Table PrC05_RejectNoTrace PrC05_Bound PrC05_UndefinedRejected
 PrC06_Fifo PrC07_NotBefore
 PrC08_FailFast PrC08_VerdictSound PrC08_NoRunningAfterCompleted
 PrC10_AllTerminal PrC10_NoGhosts PrC10_SameSet PrC10_FinishedFaithful PrC10_NoGhostCapacity
 PrC11_AllTerminal PrC11_StoreMatches PrC11_RejectAfter PrC11_GracefulRunsOut PrC11_ForcedCancels PrC11_ForcedStops PrC11_PersistWithinInterval
 PrC12_KeepsUnfinished PrC12_NoSettingsNoRemoval PrC12_NewestFirstClosure PrC12_CountBound PrC12_PeriodBound PrC12_UndefinedPurged PrC12_ThreeViewsAgree
 PrC15_SchedulableIffAccepted PrC15_RunningIffExecuting PrC15_ListedFromReturn PrC15_NewestFirst PrC15_TimesOrdered PrC15_TaskOrder
 PrC16_SnapshotRuns PrC16_ReloadIsInert
PROPERTIES PrC02_DepsFirst PrC08_NoRunAfterFailedDep

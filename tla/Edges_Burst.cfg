SPECIFICATION Spec
CONSTANTS
 NP = 1
 MaxJobs = 3
 VerTable <- MCVerTable
 InitCfgs <- MCInitCfgs
 Reloads <- MCReloads
 MaxReloads = 0
 MaxTicks = 3
 BadKinds <- MCBad
 MaxOps = 3
 Features <- MCFeatures
 Gen = FALSE
CHECK_DEADLOCK FALSE
ACTION_CONSTRAINT EmitEdge

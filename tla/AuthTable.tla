----------------------------- MODULE AuthTable -----------------------------
(* C14: the credential classes, their validity, and the oracle for recorded rows (constants only;  *)
(* extended by Auth.tla - the request-processing model - and by AuthTrace.tla - the row validator) *)
EXTENDS Integers, Sequences, FiniteSets, TLC

\* credential classes: what the harness builds, with the attributes that decide validity
Cred(name, present, wf, alg, secretOk, signed, timeOk) ==
  [name |-> name, present |-> present, wf |-> wf, alg |-> alg, secretOk |-> secretOk, signed |-> signed, timeOk |-> timeOk]
Creds == {
  Cred("none", FALSE, FALSE, "", FALSE, FALSE, FALSE),
  Cred("empty", TRUE, FALSE, "", FALSE, FALSE, FALSE),
  Cred("garbage", TRUE, FALSE, "", FALSE, FALSE, FALSE),
  Cred("truncated", TRUE, TRUE, "HS256", TRUE, FALSE, TRUE),
  Cred("wrongsecret", TRUE, TRUE, "HS256", FALSE, TRUE, TRUE),
  Cred("algnone", TRUE, TRUE, "none", FALSE, FALSE, TRUE),
  Cred("algnone_nosig", TRUE, FALSE, "none", FALSE, FALSE, TRUE),
  Cred("hs384", TRUE, TRUE, "HS384", TRUE, TRUE, TRUE),
  Cred("hs512", TRUE, TRUE, "HS512", TRUE, TRUE, TRUE),
  Cred("expired", TRUE, TRUE, "HS256", TRUE, TRUE, FALSE),
  Cred("nbf_future", TRUE, TRUE, "HS256", TRUE, TRUE, FALSE),
  Cred("iat_future", TRUE, TRUE, "HS256", TRUE, TRUE, FALSE),
  Cred("valid", TRUE, TRUE, "HS256", TRUE, TRUE, TRUE),
  Cred("valid_exp", TRUE, TRUE, "HS256", TRUE, TRUE, TRUE),
  Cred("valid_sub", TRUE, TRUE, "HS256", TRUE, TRUE, TRUE)
}
CredByName(n) == CHOOSE c \in Creds : c.name = n
Transports == {"header", "header_lc", "cookie"}
Kinds == {"api", "debug", "other"}

\* "correctly signed with the configured secret using HS256 and currently valid"
CredValid(c) == c.present /\ c.wf /\ c.alg = "HS256" /\ c.secretOk /\ c.signed /\ c.timeOk

-----------------------------------------------------------------------------
(* the oracle for recorded rows *)

\* row: [kind, registered, cred, transport, profiling, status, leak, changed]
RowOK(r) ==
  LET c == CredByName(r.cred) IN
  CASE r.kind = "api" /\ r.registered ->
         IF CredValid(c) THEN TRUE                      \* nothing is demanded for valid credentials
         ELSE r.status = 401 /\ ~r.leak /\ ~r.changed
    [] r.kind = "debug" ->
         \* (with profiling enabled the routes exist and need no token; they have no effect by construction, and the state may
         \* change in the background after earlier accepted requests, so nothing is demanded of them here)
         IF r.profiling THEN TRUE ELSE (r.status = 404 /\ ~r.leak /\ (CredValid(c) \/ ~r.changed))
    [] OTHER -> (CredValid(c) \/ (~r.leak /\ ~r.changed))
======================================================================================================================================================

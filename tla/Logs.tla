-------------------------------- MODULE Logs --------------------------------
(***************************************************************************)
(* C19: what the commands of a task write to stdout / stderr is what the    *)
(* log store and the log API return for (job, task, stream): all bytes, in  *)
(* program order across the commands of the task, streams kept apart,       *)
(* nothing of another task or job mixed in.                                 *)
(* A task is a sequence of 1..3 commands; a command writes one chunk to     *)
(* stdout, to stderr, or the same chunk to both.  Size classes: 0 = empty,  *)
(* 1 = one byte without newline, 2 = 4 KiB, 3 = 64 KiB + 1, 4 = 5 MiB       *)
(* (thorough tier).  Chunks of class >= 2 carry a header naming (job, task, *)
(* command), so the order of the chunks in a captured stream is observable. *)
(***************************************************************************)
EXTENDS Integers, Sequences, FiniteSets, TLC

CONSTANT MaxSize
Kinds == {"out", "err", "both"}
Cmd(k, s) == [kind |-> k, size |-> s]
\* the first command takes every size class, later commands are small or 4 KiB
First == {Cmd(k, s) : k \in Kinds, s \in 0 .. MaxSize}
Later == {Cmd(k, s) : k \in Kinds, s \in {1, 2}}
Shapes == {<<a>> : a \in First} \cup {<<a, b>> : a \in First, b \in Later} \cup {<<a, b, c>> : a \in First, b \in Later, c \in Later}

Writes(c, stream) == c.kind = "both" \/ c.kind = stream
\* indices of the commands whose (headered) chunk must appear in the stream, in program order
RECURSIVE OrderFrom(_, _, _)
OrderFrom(shape, stream, i) ==
  IF i > Len(shape) THEN <<>>
  ELSE (IF Writes(shape[i], stream) /\ shape[i].size >= 2 THEN <<i>> ELSE <<>>) \o OrderFrom(shape, stream, i + 1)
ExpectedOrder(shape, stream) == OrderFrom(shape, stream, 1)
RECURSIVE LenFrom(_, _, _)
LenFrom(shape, stream, i) ==
  IF i > Len(shape) THEN 0
  ELSE (IF Writes(shape[i], stream) THEN 1 ELSE 0) + LenFrom(shape, stream, i + 1)
\* number of chunks (of any size) that go to the stream
Chunks(shape, stream) == LenFrom(shape, stream, 1)

\* row: [shape, stream ("out" | "err"), equal, order, cross, apiEqual]
RowOK(r) == /\ r.shape \in Shapes
            /\ r.equal                                  \* Reader returns exactly the expected bytes
            /\ r.order = ExpectedOrder(r.shape, r.stream)
            /\ ~r.cross                                 \* no chunk of another (job, task) in it
            /\ r.apiEqual                               \* GET /job/logs returns the same
=============================================================================

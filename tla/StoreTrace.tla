----------------------------- MODULE StoreTrace -----------------------------
(***************************************************************************)
(* C09 binding, code -> spec: the file-system calls of the real             *)
(* JsonDataStore.Save (recorded with strace from a child process built from *)
(* /repo) are replayed; after every call - i.e. at every point where the    *)
(* process could be killed - the directory must satisfy the Published       *)
(* invariant of Store.tla in its concrete form.  Kill rows (spec -> code):  *)
(* the process really was killed before call i and a fresh process loaded   *)
(* the store.                                                               *)
(***************************************************************************)
EXTENDS Integers, Sequences, FiniteSets, TLC, Json

Events == ndJsonDeserialize("store_events.ndjson")
KillRows == ndJsonDeserialize("store_kill_rows.ndjson")

VARIABLES mode, l, files, ino, save
\* files : [name -> inode index]      ino : sequence of inode records
\* save  : [gen, bad, active, inos]   the Save call in progress (from the markers)

NoSave == [gen |-> 0, bad |-> FALSE, active |-> FALSE, inos |-> {}, renamed |-> FALSE]
Init == /\ mode \in {"trace", "kill"} /\ l = 0
        /\ files = << >> /\ ino = << >> /\ save = NoSave

Has(n) == n \in DOMAIN files
Put(n, i) == [x \in DOMAIN files \cup {n} |-> IF x = n THEN i ELSE files[x]]
Del(n) == [x \in DOMAIN files \ {n} |-> files[x]]

Apply(e) ==
  CASE e.k = "create" ->
         IF Has(e.name)
         THEN \* an existing file is opened again: a second user of the same (temporary) file
              /\ ino' = [ino EXCEPT ![files[e.name]].shared = TRUE,
                                    ![files[e.name]].truncAfterWrite = IF e.trunc /\ ino[files[e.name]].bytes > 0 THEN 1 ELSE @,
                                    ![files[e.name]].bytes = IF e.trunc THEN 0 ELSE @,
                                    ![files[e.name]].closed = FALSE]
              /\ UNCHANGED files
              /\ save' = [save EXCEPT !.inos = @ \cup {files[e.name]}]
         ELSE /\ ino' = Append(ino, [bytes |-> 0, closed |-> FALSE, shared |-> FALSE, truncAfterWrite |-> 0, postLinkWrites |-> 0, linked |-> FALSE])
              /\ files' = Put(e.name, Len(ino) + 1)
              /\ save' = [save EXCEPT !.inos = @ \cup {Len(ino) + 1}]
    [] OTHER -> UNCHANGED <<files, ino, save>>

\* the python parser resolves file descriptors to the inode index (creation order) it refers to: e.ino
Step(e) ==
  CASE e.k = "create" -> Apply(e)
    [] e.k = "write" -> /\ ino' = [ino EXCEPT ![e.ino].bytes = @ + e.n,
                                             ![e.ino].postLinkWrites = IF @ > 0 \/ ino[e.ino].linked THEN @ + 1 ELSE @]
                        /\ UNCHANGED <<files, save>>
    [] e.k = "close" -> /\ ino' = [ino EXCEPT ![e.ino].closed = TRUE] /\ UNCHANGED <<files, save>>
    [] e.k = "ftruncate" -> /\ ino' = [ino EXCEPT ![e.ino].truncAfterWrite = 1, ![e.ino].bytes = 0] /\ UNCHANGED <<files, save>>
    [] e.k = "rename" -> /\ files' = [x \in (DOMAIN files \ {e.name}) \cup {e.to} |-> IF x = e.to THEN files[e.name] ELSE files[x]]
                         /\ ino' = IF e.to = "data.json" THEN [ino EXCEPT ![files[e.name]].linked = TRUE] ELSE ino
                         /\ save' = IF e.to = "data.json" THEN [save EXCEPT !.renamed = TRUE] ELSE save
    [] e.k = "unlink" -> /\ files' = Del(e.name) /\ UNCHANGED <<ino, save>>
    [] e.k = "reset" -> /\ files' = << >> /\ ino' = << >> /\ save' = NoSave     \* next recorded trace (new directory)
    [] e.k = "mark" -> /\ save' = IF e.phase = "begin" THEN [gen |-> e.gen, bad |-> e.bad, active |-> TRUE, inos |-> {}, renamed |-> FALSE]
                                  ELSE [save EXCEPT !.active = FALSE]
                       /\ UNCHANGED <<files, ino>>
    [] OTHER -> UNCHANGED <<files, ino, save>>

Next == \/ /\ mode = "trace" /\ l < Len(Events) /\ l' = l + 1 /\ Step(Events[l + 1]) /\ UNCHANGED mode
        \/ /\ mode = "kill" /\ l < Len(KillRows) /\ l' = l + 1 /\ UNCHANGED <<mode, files, ino, save>>
Spec == Init /\ [][Next]_<<mode, l, files, ino, save>>

Ev == Events[l]
Data == ino[files["data.json"]]

\* concrete form of Store!Published: whatever is linked as data.json was completely written and closed before it was
\* linked, is written by nobody afterwards, and was never shared between two savers or truncated after a write
C09_PublishedComplete ==
  (mode = "trace" /\ Has("data.json")) => (Data.closed /\ Data.postLinkWrites = 0 /\ ~Data.shared /\ Data.truncAfterWrite = 0)

\* a save that cannot encode its snapshot fails and does not replace the store file
C09_FailedSaveKeepsOldFile ==
  (mode = "trace" /\ l > 0 /\ save.bad) => (~save.renamed /\ (Ev.k = "mark" /\ Ev.phase = "end" => Ev.err))

\* a save that has returned successfully is what the store file is
C09_ReturnedIsCurrent ==
  (mode = "trace" /\ l > 0 /\ Ev.k = "mark" /\ Ev.phase = "end" /\ ~Ev.err /\ ~Ev.par) =>
     (Has("data.json") /\ files["data.json"] \in save.inos)

\* killed before call i: a fresh process loads exactly the last snapshot whose rename had completed (or nothing)
C09_KillLoadsLastPublished ==
  (mode = "kill" /\ l > 0) => KillRows[l].got = KillRows[l].expect

Alias == [mode |-> mode, line |-> l]
=============================================================================

------------------------------ MODULE LogsGen ------------------------------
EXTENDS Logs, Json, SequencesExt
ASSUME ndJsonSerialize("logs_cases.ndjson", [i \in 1 .. Cardinality(Shapes) |-> [id |-> i, shape |-> SetToSeq(Shapes)[i]]])
VARIABLE x
Init == x = 0
Next == x' = x
=============================================================================

SPECIFICATION Spec
CONSTANT MaxJobs = 3
CHECK_DEADLOCK FALSE
INVARIANTS ExitedAllTerminal ExitedStoreMatches
PROPERTIES GracefulCancelsOnlyWaiting RestartFaithful ShutdownEnds

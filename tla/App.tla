--------------------------------- MODULE App ---------------------------------
(***************************************************************************)
(* The process level of prunner (app/app.go): one server process, its       *)
(* signals, and what is on disk when it has exited.                         *)
(*   SIGINT  : graceful shutdown - new requests get 503, waiting jobs are   *)
(*             canceled, running jobs run to their end, final save, exit    *)
(*   SIGTERM : forced - additionally every running job is canceled          *)
(*   SIGUSR1 : definitions are loaded again and replaced if they differ     *)
(*   restart : a new process on the same data directory                     *)
(* Jobs are abstract: "waiting" | "running" | "done" | "failed" | "canceled".*)
(* TLC checks that after the exit nothing is running or waiting, that the   *)
(* store equals the last reported state, that a graceful shutdown cancels   *)
(* only waiting jobs, and that a restart reports finished jobs unchanged.   *)
(* The same facts are recorded from the real binary (RowsBin.tla).          *)
(***************************************************************************)
EXTENDS Integers, Sequences, FiniteSets, TLC
CONSTANT MaxJobs
VARIABLES phase,    \* "up" | "graceful" | "forced" | "exited"
          jobs,     \* sequence of job states as reported by the API
          store,    \* sequence of job states in data.json
          defsDisk, defsLive,   \* version of the definitions on disk / in the runner
          wasForced
vars == <<phase, jobs, store, defsDisk, defsLive, wasForced>>
Terminal == {"done", "failed", "canceled"}
Init == phase = "up" /\ jobs = <<>> /\ store = <<>> /\ defsDisk = 1 /\ defsLive = 1 /\ wasForced = FALSE
Running == {i \in 1 .. Len(jobs) : jobs[i] = "running"}
Schedule == /\ phase = "up" /\ Len(jobs) < MaxJobs
            /\ jobs' = Append(jobs, IF Running = {} THEN "running" ELSE "waiting")
            /\ UNCHANGED <<phase, store, defsDisk, defsLive, wasForced>>
Rejected == phase \in {"graceful", "forced"}          \* a schedule request now gets 503 and leaves no trace
Finish(i, r) == /\ phase # "exited" /\ i \in Running /\ r \in {"done", "failed"}
                /\ LET next == {k \in 1 .. Len(jobs) : jobs[k] = "waiting"} IN
                   jobs' = [k \in 1 .. Len(jobs) |-> IF k = i THEN r
                                                     ELSE IF next # {} /\ k = (CHOOSE m \in next : \A x \in next : m <= x) THEN "running"
                                                     ELSE jobs[k]]
                /\ UNCHANGED <<phase, store, defsDisk, defsLive, wasForced>>
Persist == phase # "exited" /\ store' = jobs /\ UNCHANGED <<phase, jobs, defsDisk, defsLive, wasForced>>
SigInt == /\ phase = "up" /\ phase' = "graceful"
          /\ jobs' = [k \in 1 .. Len(jobs) |-> IF jobs[k] = "waiting" THEN "canceled" ELSE jobs[k]]
          /\ UNCHANGED <<store, defsDisk, defsLive, wasForced>>
SigTerm == /\ phase \in {"up", "graceful"} /\ phase' = "forced" /\ wasForced' = TRUE
           /\ jobs' = [k \in 1 .. Len(jobs) |-> IF jobs[k] \in {"waiting", "running"} THEN "canceled" ELSE jobs[k]]
           /\ UNCHANGED <<store, defsDisk, defsLive>>
Exit == /\ phase \in {"graceful", "forced"} /\ Running = {}
        /\ store' = jobs /\ phase' = "exited"
        /\ UNCHANGED <<jobs, defsDisk, defsLive, wasForced>>
EditDefs == phase = "up" /\ defsDisk < 3 /\ defsDisk' = defsDisk + 1 /\ UNCHANGED <<phase, jobs, store, defsLive, wasForced>>
SigUsr1 == phase = "up" /\ defsLive' = defsDisk /\ UNCHANGED <<phase, jobs, store, defsDisk, wasForced>>
\* a new process on the data directory: unfinished jobs of the store come back canceled
Restart == /\ phase = "exited" /\ phase' = "up" /\ wasForced' = FALSE
           /\ jobs' = [k \in 1 .. Len(store) |-> IF store[k] \in Terminal THEN store[k] ELSE "canceled"]
           /\ defsLive' = defsDisk
           /\ UNCHANGED <<store, defsDisk>>
Next == Schedule \/ (\E i \in 1 .. MaxJobs : \E r \in {"done", "failed"} : Finish(i, r)) \/ Persist \/ SigInt \/ SigTerm \/ Exit
        \/ EditDefs \/ SigUsr1 \/ Restart
Spec == Init /\ [][Next]_vars /\ WF_vars(Exit) /\ WF_vars(\E i \in 1 .. MaxJobs : Finish(i, "done"))

ExitedAllTerminal == phase = "exited" => \A i \in 1 .. Len(jobs) : jobs[i] \in Terminal
ExitedStoreMatches == phase = "exited" => store = jobs
GracefulCancelsOnlyWaiting == [][(phase = "graceful" /\ phase' \in {"graceful", "exited"}) =>
                                   \A i \in 1 .. Len(jobs) : (jobs[i] = "running" => jobs'[i] \in {"running", "done", "failed"})]_vars
RestartFaithful == [][(phase = "exited" /\ phase' = "up") => \A i \in 1 .. Len(store) : store[i] \in Terminal => jobs'[i] = store[i]]_vars
ShutdownEnds == (phase \in {"graceful", "forced"}) ~> (phase = "exited")
=============================================================================

------------------------------ MODULE Sim_Life ------------------------------
(* Script generation for persistence, restart, shutdown and retention (C10 - C12) *)
EXTENDS Prunner, Catalog, Json

CONSTANT SimLen

SimVerTable == <<
  MkRet(1, 1, -1, 0, 0, GSingle),     \* 1 no retention
  MkRet(1, 2, -1, 1, 0, GSingle),     \* 2 keep 1
  MkRet(1, 1, -1, 2, 0, GChain),      \* 3 keep 2
  MkRet(1, 2, 2, 0, 1, GSingle),      \* 4 period 1 tick
  MkRet(1, 1, -1, 1, 2, GPar),        \* 5 keep 1, period 2
  MkVer(1, 1, 2, FALSE, 2, FALSE, GChain, FALSE),   \* 6 delay
  MkVer(1, 2, -1, FALSE, 0, TRUE, GFanIn, FALSE),   \* 7 continue after failure
  MkRet(2, 1, -1, 1, 0, GChain),      \* 8 pipeline 2, keep 1
  MkRet(2, 2, 1, 0, 0, GSingle)       \* 9 pipeline 2
>>
P1 == 1 .. 7
P2 == {8, 9}
SimInitCfgs == {<<a, b>> : a \in P1, b \in P2 \cup {0}}
SimReloads == {<<1, v>> : v \in P1 \cup {0}} \cup {<<2, v>> : v \in P2 \cup {0}}
SimBad == {"none", "none", "none", "reserved"}
SimFeatures == {"cancel", "save", "persist", "shutdown", "restart"}

Emit == /\ clock = 0
        /\ PrintT(ToJson([np |-> NP, vers |-> VerTable, steps |-> hist]))
        /\ clock' = 1
        /\ UNCHANGED <<cfgv, epoch, job, stage, sched, running, rctx, cancelPending, waitList, shut, store, logs, persist,
                       nops, nreloads, nticks, runs, stop, ack, last, ev, obs, pre, hist>>

Budget == Len(hist) >= SimLen \/ nops >= MaxOps
SimNext == \/ (clock = 0 /\ ~Budget /\ Next)
           \/ (Budget /\ Emit)
SimSpec == Init /\ [][SimNext]_vars
==============================================================================

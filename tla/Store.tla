-------------------------------- MODULE Store --------------------------------
(***************************************************************************)
(* C09: the file-system protocol of store.JsonDataStore.Save               *)
(*   create a temporary file with a unique name in the data directory,      *)
(*   write the encoding chunk by chunk, close, rename over data.json        *)
(* with up to two concurrent savers, a process crash possible in every      *)
(* state, and a reader that may look at any time.                           *)
(* InPlace = TRUE is the negative control (write data.json directly): TLC   *)
(* must find the truncated state.                                           *)
(***************************************************************************)
EXTENDS Integers, Sequences, FiniteSets, TLC

CONSTANTS Savers, MaxSaves, Chunks, InPlace

VARIABLES dir,      \* [name -> inode id]; "data" is data.json, other names are temporary files
          inode,    \* [id -> [snap, written, closed]]
          sv,       \* [saver -> [pc, snap, ino]]
          nsaves,   \* snapshots handed to Save so far
          lastRenamed, \* snapshot of the last completed rename (0: none)
          returnedOK,  \* [saver -> snapshot of its last Save that returned successfully, 0: none]
          crashed

vars == <<dir, inode, sv, nsaves, lastRenamed, returnedOK, crashed>>

Init == /\ dir = << >> /\ inode = << >>
        /\ sv = [s \in Savers |-> [pc |-> "idle", snap |-> 0, ino |-> 0]]
        /\ nsaves = 0 /\ lastRenamed = 0 /\ returnedOK = [s \in Savers |-> 0] /\ crashed = FALSE

DATA == <<"data", 0>>
Names == DOMAIN dir
HasData == DATA \in Names
NewIno == Len(inode) + 1

Begin(s) == /\ ~crashed /\ sv[s].pc = "idle" /\ nsaves < MaxSaves
            /\ nsaves' = nsaves + 1
            /\ sv' = [sv EXCEPT ![s] = [pc |-> "create", snap |-> nsaves + 1, ino |-> 0]]
            /\ UNCHANGED <<dir, inode, lastRenamed, returnedOK, crashed>>

\* os.CreateTemp: a new inode under a name nobody else uses (O_EXCL); in place: open data.json with O_TRUNC
Create(s) == /\ ~crashed /\ sv[s].pc = "create"
             /\ IF InPlace
                THEN IF HasData
                     THEN /\ inode' = [inode EXCEPT ![dir[DATA]] = [snap |-> sv[s].snap, written |-> 0, closed |-> FALSE]]
                          /\ sv' = [sv EXCEPT ![s].pc = "write", ![s].ino = dir[DATA]]
                          /\ UNCHANGED dir
                     ELSE /\ inode' = Append(inode, [snap |-> sv[s].snap, written |-> 0, closed |-> FALSE])
                          /\ dir' = [n \in Names \cup {DATA} |-> IF n = DATA THEN NewIno ELSE dir[n]]
                          /\ sv' = [sv EXCEPT ![s].pc = "write", ![s].ino = NewIno]
                ELSE /\ inode' = Append(inode, [snap |-> sv[s].snap, written |-> 0, closed |-> FALSE])
                     /\ dir' = [n \in Names \cup {<<"tmp", NewIno>>} |-> IF n = <<"tmp", NewIno>> THEN NewIno ELSE dir[n]]
                     /\ sv' = [sv EXCEPT ![s].pc = "write", ![s].ino = NewIno]
             /\ UNCHANGED <<nsaves, lastRenamed, returnedOK, crashed>>

Write(s) == /\ ~crashed /\ sv[s].pc = "write" /\ inode[sv[s].ino].written < Chunks
            /\ inode' = [inode EXCEPT ![sv[s].ino].written = @ + 1]
            /\ UNCHANGED <<dir, sv, nsaves, lastRenamed, returnedOK, crashed>>

Close(s) == /\ ~crashed /\ sv[s].pc = "write" /\ inode[sv[s].ino].written = Chunks
            /\ inode' = [inode EXCEPT ![sv[s].ino].closed = TRUE]
            /\ sv' = [sv EXCEPT ![s].pc = IF InPlace THEN "return" ELSE "rename"]
            /\ lastRenamed' = IF InPlace THEN sv[s].snap ELSE lastRenamed
            /\ UNCHANGED <<dir, nsaves, returnedOK, crashed>>

Rename(s) == /\ ~crashed /\ sv[s].pc = "rename"
             /\ dir' = [n \in (Names \ {<<"tmp", sv[s].ino>>}) \cup {DATA} |-> IF n = DATA THEN sv[s].ino ELSE dir[n]]
             /\ lastRenamed' = sv[s].snap
             /\ sv' = [sv EXCEPT ![s].pc = "return"]
             /\ UNCHANGED <<inode, nsaves, returnedOK, crashed>>

Return(s) == /\ ~crashed /\ sv[s].pc = "return"
             /\ returnedOK' = [returnedOK EXCEPT ![s] = sv[s].snap]
             /\ sv' = [sv EXCEPT ![s].pc = "idle"]
             /\ UNCHANGED <<dir, inode, nsaves, lastRenamed, crashed>>

\* the process is killed: every saver stops where it is, the directory stays as it is
Crash == /\ ~crashed /\ crashed' = TRUE
         /\ UNCHANGED <<dir, inode, sv, nsaves, lastRenamed, returnedOK>>

Next == (\E s \in Savers : Begin(s) \/ Create(s) \/ Write(s) \/ Close(s) \/ Rename(s) \/ Return(s)) \/ Crash
Spec == Init /\ [][Next]_vars

\* what a reader (or a fresh process after the crash) loads
Load == IF ~HasData THEN 0
        ELSE IF inode[dir[DATA]].written = Chunks THEN inode[dir[DATA]].snap ELSE -1      \* -1: truncated / partial

\* at every instant - and therefore at every point where the process can be killed - the store file is absent or
\* a complete encoding of one snapshot that was passed to a save
Published == Load # -1 /\ Load \in 0 .. nsaves
\* a save that has returned successfully is what the next load returns (until a later save replaces the file)
ReadYourSave == Load = lastRenamed
ReturnedVisible == \A s \in Savers : returnedOK[s] # 0 => (Load # 0 /\ lastRenamed >= 1)
=============================================================================

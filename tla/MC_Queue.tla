------------------------------ MODULE MC_Queue ------------------------------
(* a deep wait list: one slot, up to five jobs, cancels of any of them (head, middle, tail, unknown) *)
EXTENDS Prunner, Catalog
MCVerTable == <<
  MkVer(1, 1, -1, FALSE, 0, FALSE, GSingle, FALSE)    \* concurrency 1, unbounded queue, append
>>
MCInitCfgs == {<<1>>}
MCReloads == {}
MCBad == {"none"}
MCFeatures == {"cancel"}
==============================================================================

SPECIFICATION SimSpec
CONSTANTS
 NP = 2
 MaxJobs = 6
 VerTable <- SimVerTable
 InitCfgs <- SimInitCfgs
 Reloads <- SimReloads
 MaxReloads = 2
 MaxTicks = 8
 BadKinds <- SimBad
 MaxOps = 12
 Features <- SimFeatures
 Gen = TRUE
 SimLen = 34
CHECK_DEADLOCK FALSE

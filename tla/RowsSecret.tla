----------------------------- MODULE RowsSecret -----------------------------
(* validates the rows recorded from the real config.LoadOrCreateConfig against Secret.tla *)
EXTENDS Secret, Json
Rows == ndJsonDeserialize("secret_rows.ndjson")
VARIABLE l
Init == l = 1
Next == l < Len(Rows) /\ l' = l + 1
Spec == Init /\ [][Next]_l
R == Rows[l]
CaseOf(r) == [cli |-> r.cli, file |-> r.file]
\* row: [cli, file, source, created, secretLen, fileHoldsSecret]
\* C14 speaks of the configured secret, not of its strength: the verdict is that the secret in force is the one that was
\* configured (never another one), and that nothing is generated or written when a secret was given.  That a too short
\* secret is refused (NeverWeak in Secret.tla) is part of the specification of the loader but not of the property: a loader
\* that accepts it still authenticates against the configured secret.
Given(c) == IF c.cli = "short" THEN "cli" ELSE IF c.cli = "absent" /\ c.file = "short" THEN "file" ELSE "error"
C14_ConfiguredSecret ==
  l <= Len(Rows) =>
     LET c == CaseOf(R)
         e == Expected(c) IN
     IF e.source # "error"
     THEN /\ R.source = e.source
          /\ R.created = e.created
          /\ (e.source = "generated" => R.secretLen = 32 /\ R.fileHoldsSecret)
          /\ (e.source = "file" => R.fileHoldsSecret)
     ELSE \* refused, or (weaker loader) the given secret itself is in force; a secret was given: nothing else may replace it
          (c.cli = "short" \/ c.file = "short") => (R.source \in {"error", Given(c)} /\ ~R.created)
\* the loader's own rule (reported in the evidence, not a verdict on C14)
LoaderRefusesWeak == l <= Len(Rows) => (Expected(CaseOf(R)).source = "error" => R.source = "error")
ASSUME {CaseOf(Rows[i]) : i \in 1 .. Len(Rows)} = Cases
Alias == [line |-> l]
=============================================================================

----------------------------- MODULE RowsSecret -----------------------------
(* validates the rows recorded from the real config.LoadOrCreateConfig against Secret.tla *)
EXTENDS Secret, Json
Rows == ndJsonDeserialize("secret_rows.ndjson")
VARIABLE l
Init == l = 1
Next == l < Len(Rows) /\ l' = l + 1
Spec == Init /\ [][Next]_l
R == Rows[l]
CaseOf(r) == [cli |-> r.cli, file |-> r.file]
\* row: [cli, file, source, created, secretLen, fileHoldsSecret]
C14_ConfiguredSecret ==
  l <= Len(Rows) =>
     LET e == Expected(CaseOf(R)) IN
     /\ R.source = e.source
     /\ R.created = e.created
     /\ (e.source # "error" => R.secretLen >= MinLen)
     /\ (e.source = "generated" => R.secretLen = 32 /\ R.fileHoldsSecret)
     /\ (e.source = "file" => R.fileHoldsSecret)
ASSUME {CaseOf(Rows[i]) : i \in 1 .. Len(Rows)} = Cases
Alias == [line |-> l]
=============================================================================

INIT Init
NEXT Next

SPECIFICATION Spec
CONSTANTS
 NP = 1
 MaxJobs = 2
 VerTable <- MCVerTable
 InitCfgs <- MCInitCfgs
 Reloads <- MCReloads
 MaxReloads = 0
 MaxTicks = 0
 BadKinds <- MCBad
 MaxOps = 4
 Features <- MCFeatures
 Gen = FALSE
CHECK_DEADLOCK FALSE
ALIAS Alias
INVARIANTS TypeOK WaitListSound WaitListComplete
 PrC01_RunLimit PrC10_AllTerminal PrC10_NoGhosts PrC10_SameSet PrC10_FinishedFaithful PrC10_NoGhostCapacity PrC11_PersistWithinInterval PrC15_SchedulableIffAccepted PrC15_ListedFromReturn

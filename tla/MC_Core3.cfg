SPECIFICATION Spec
CONSTANTS
 NP = 1
 MaxJobs = 3
 VerTable <- MCVerTable
 InitCfgs <- MCInitCfgs
 Reloads <- MCReloads
 MaxReloads = 0
 MaxTicks = 3
 BadKinds <- MCBad
 MaxOps = 5
 Features <- MCFeatures
 Gen = FALSE
CHECK_DEADLOCK FALSE
ALIAS Alias
INVARIANTS TypeOK WaitListSound WaitListComplete
INVARIANTS
 PrC01_LimitAtStart PrC01_RunInsideSpan PrC01_RunLimit
 PrC02_AtMostOnce PrC02_SuccessMeansAll PrC02_CyclicNeverRuns PrC02_AcyclicCompletes
 PrC03_NoIdleHead
 PrC04_NotStartedNeverRuns PrC04_StopDelivered PrC04_NoNewTaskAfterStop PrC04_ReportedCanceled PrC04_Results
 PrC05_Table PrC05_RejectNoTrace PrC05_Bound PrC05_UndefinedRejected
 PrC06_Fifo
 PrC07_NotBefore PrC07_NeverStartedNeverRuns PrC07_NewestWins
PROPERTIES PrC02_DepsFirst PrC08_NoRunAfterFailedDep
INVARIANTS
 PrC08_FailFast PrC08_Continue PrC08_VerdictSound PrC08_NoRunningAfterCompleted
 PrC15_SchedulableIffAccepted PrC15_RunningIffExecuting PrC15_ListedFromReturn PrC15_NewestFirst PrC15_TimesOrdered PrC15_TaskOrder
 PrC16_SnapshotRuns PrC16_ReloadIsInert

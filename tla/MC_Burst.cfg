SPECIFICATION Spec
CONSTANTS
 NP = 1
 MaxJobs = 3
 VerTable <- MCVerTable
 InitCfgs <- MCInitCfgs
 Reloads <- MCReloads
 MaxReloads = 0
 MaxTicks = 3
 BadKinds <- MCBad
 MaxOps = 3
 Features <- MCFeatures
 Gen = FALSE
CHECK_DEADLOCK FALSE
ALIAS Alias
INVARIANTS TypeOK WaitListSound WaitListComplete
 PrC01_LimitAtStart PrC01_RunLimit PrC03_NoIdleHead PrC05_Table PrC05_Bound PrC06_Fifo PrC07_NotBefore PrC15_SchedulableIffAccepted

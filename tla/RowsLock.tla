------------------------------ MODULE RowsLock ------------------------------
(* the discipline of LockDiscipline.tla, checked on the lock-mode probes recorded at the access sites of the real code; *)
(* plus snapshots taken under the read lock by concurrent clients (consistent state) and the race detector's findings  *)
EXTENDS Integers, Sequences, FiniteSets, TLC, Json
Rows == ndJsonDeserialize("lock_rows.ndjson")
Snaps == ndJsonDeserialize("lock_snap_rows.ndjson")
Races == ndJsonDeserialize("lock_race_rows.ndjson")
VARIABLES kind, l
Init == kind \in {"lock", "snap", "race"} /\ l = 1
N == IF kind = "lock" THEN Len(Rows) ELSE IF kind = "snap" THEN Len(Snaps) ELSE Len(Races)
Next == l < N /\ l' = l + 1 /\ UNCHANGED kind
Spec == Init /\ [][Next]_<<kind, l>>
\* row: [site, mutates, writeHeld, anyHeld, n]
C13_LockDiscipline == (kind = "lock" /\ l <= Len(Rows)) =>
   LET r == Rows[l] IN (r.mutates => r.writeHeld) /\ (~r.mutates => (r.anyHeld \/ r.writeHeld))
\* snapshots seen by concurrent readers: every operation sees a consistent state
C13_ConsistentSnapshots == (kind = "snap" /\ l <= Len(Snaps)) => Snaps[l].ok
\* data races / runtime faults reported for prunner code by the -race build of the concurrent driver
C13_NoRaceReport == (kind = "race" /\ l <= Len(Races)) => ~Races[l].race
Alias == [kind |-> kind, line |-> l]
=============================================================================

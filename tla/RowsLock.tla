------------------------------ MODULE RowsLock ------------------------------
(* the discipline of LockDiscipline.tla, checked on the lock-mode probes recorded at the access sites of the real code; *)
(* plus snapshots taken under the read lock by concurrent clients (consistent state) and the race detector's findings  *)
EXTENDS Integers, Sequences, FiniteSets, TLC, Json
Rows == ndJsonDeserialize("lock_rows.ndjson")
Snaps == ndJsonDeserialize("lock_snap_rows.ndjson")
Races == ndJsonDeserialize("lock_race_rows.ndjson")
Facts == ndJsonDeserialize("lock_fact_rows.ndjson")
VARIABLES kind, l
Init == kind \in {"lock", "snap", "race", "fact"} /\ l = 1
N == IF kind = "lock" THEN Len(Rows) ELSE IF kind = "snap" THEN Len(Snaps) ELSE IF kind = "race" THEN Len(Races) ELSE Len(Facts)
Next == l < N /\ l' = l + 1 /\ UNCHANGED kind
Spec == Init /\ [][Next]_<<kind, l>>
\* row: [site, mutates, writeHeld, anyHeld, n]
C13_LockDiscipline == (kind = "lock" /\ l <= Len(Rows)) =>
   LET r == Rows[l] IN (r.mutates => r.writeHeld) /\ (~r.mutates => (r.anyHeld \/ r.writeHeld))
\* snapshots seen by concurrent readers: every operation sees a consistent state
C13_ConsistentSnapshots == (kind = "snap" /\ l <= Len(Snaps)) => Snaps[l].ok
\* data races / runtime faults reported for prunner code by the -race build of the concurrent driver
C13_NoRaceReport == (kind = "race" /\ l <= Len(Races)) => ~Races[l].race
\* facts observed by the concurrent clients that must hold whatever the interleaving was; fact rows: [prop, what, p, a, b, n]
Fact(prop) == kind = "fact" /\ l <= Len(Facts) /\ Facts[l].prop = prop
\* a snapshot (taken under the read lock) never shows more running jobs of a pipeline than its concurrency (a = running, b = limit)
C01_ConcurrentSnapshots == Fact("C01") => Facts[l].a <= Facts[l].b
\* ... nor more waiting jobs than its queue limit (a = waiting, b = limit, negative: unbounded)
C05_ConcurrentSnapshots == Fact("C05") => (Facts[l].b < 0 \/ Facts[l].a <= Facts[l].b)
\* the critical section of an accepted request precedes the one in which Shutdown began (a = 1: it came after it, judged by the
\* order of the critical sections); when Shutdown has returned no job is left non-terminal (a = their number)
C11_ConcurrentShutdown == Fact("C11") => Facts[l].a = 0
\* a job is built from the definitions installed by the last ReplaceDefinitions before its own critical section (a = the job's, b = installed)
C16_ConcurrentReload == Fact("C16") => Facts[l].a = Facts[l].b
\* a completed job of the pipeline that goes on after a failure, one of whose tasks failed, is not reported as succeeded (a = 1)
C08_ConcurrentVerdict == Fact("C08") => Facts[l].a = 0
\* the jobs of the delayed one-slot pipeline start in the order of their accepting critical sections (a = pairs that did not),
\* and none starts before its delay has passed (a = how many did)
C06_ConcurrentFifo == Fact("C06") => Facts[l].a = 0
C07_ConcurrentDelay == Fact("C07") => Facts[l].a = 0
Alias == [kind |-> kind, line |-> l]
=============================================================================

SPECIFICATION Spec
CHECK_DEADLOCK FALSE
ALIAS Alias
INVARIANTS C17_LoadAsSpecified C17_EqualsIsStructural C17_AllCasesCovered

-------------------------------- MODULE Auth --------------------------------
(***************************************************************************)
(* C14: the authentication path of the HTTP API (server/server.go):         *)
(*   router -> [group: jwtauth.Verifier -> jwtauth.Authenticator] -> handler *)
(*   router -> /debug (mounted only if profiling is enabled)                *)
(* A request is processed in steps; TLC explores every request of the       *)
(* finite space Routes x Methods x Creds x Transports x Profiling and       *)
(* checks that a handler of the API is reached only with a credential that  *)
(* is correctly signed (HS256, configured secret) and currently valid, and  *)
(* that nothing else has an effect.  The same Expected table is the oracle  *)
(* for the rows recorded from the real handler (AuthTrace.tla).             *)
(***************************************************************************)
EXTENDS AuthTable

-----------------------------------------------------------------------------
(* the request-processing state machine *)

VARIABLES req, pc, effect

Init == /\ req \in [kind : Kinds, cred : Creds, transport : Transports, profiling : BOOLEAN]
        /\ pc = "router" /\ effect = FALSE

Route == /\ pc = "router"
         /\ pc' = CASE req.kind = "api" -> "verifier"
                    [] req.kind = "debug" -> IF req.profiling THEN "profiler" ELSE "notfound"
                    [] OTHER -> "notfound"
         /\ UNCHANGED <<req, effect>>
\* jwtauth.Verifier: find the token (header, then cookie), parse + verify signature/algorithm + validate time claims;
\* the result (token, err) goes into the request context
Verify == /\ pc = "verifier"
          /\ pc' = IF CredValid(req.cred) THEN "authenticator_ok" ELSE "authenticator_err"
          /\ UNCHANGED <<req, effect>>
\* jwtauth.Authenticator: 401 unless there is a token, no error, and jwt.Validate passes
Authenticate == /\ pc \in {"authenticator_ok", "authenticator_err"}
                /\ pc' = IF pc = "authenticator_ok" THEN "handler" ELSE "rejected401"
                /\ UNCHANGED <<req, effect>>
Handle == /\ pc \in {"handler", "profiler"}
          /\ effect' = (pc = "handler")
          /\ pc' = "done"
          /\ UNCHANGED req
Next == Route \/ Verify \/ Authenticate \/ Handle
Spec == Init /\ [][Next]_<<req, pc, effect>>

\* design-level statements
HandlerOnlyIfValid == pc = "handler" => (req.kind = "api" /\ CredValid(req.cred))
EffectOnlyIfValid == effect => CredValid(req.cred)
ProfilerOnlyIfEnabled == pc = "profiler" => req.profiling

=============================================================================

-------------------------------- MODULE Procs --------------------------------
(***************************************************************************)
(* C20: the kill protocol of taskctl/executor_unix.go for ONE command of a  *)
(* task: the command runs in its own process group; when the job context is *)
(* cancelled the group gets SIGINT and, after the kill timeout, SIGKILL;     *)
(* cmd.Wait() returns when the direct child (group leader) has exited and   *)
(* nobody holds the command's output pipe any more; the task (and then the  *)
(* job) is reported finished after Wait returned.                           *)
(* Members of the group: the leader and descendants, each of which may       *)
(* ignore SIGINT and may or may not hold the output pipe.                    *)
(*                                                                         *)
(* KillWhenLeaderGone = TRUE models the repaired handler: as soon as Wait    *)
(* has returned after a cancel, the rest of the group is killed at once.     *)
(* With FALSE (the original code) TLC finds the survivor of finding D8.      *)
(***************************************************************************)
EXTENDS Integers, FiniteSets, TLC

CONSTANTS Shapes,             \* set of process trees; a tree is a set of records [id, leader, ignoresInt, holdsPipe]
          KillWhenLeaderGone

VARIABLES Members, alive, phase, waitReturned, reported, timerFired
\* phase: "running" | "cancelled" (SIGINT sent)

vars == <<Members, alive, phase, waitReturned, reported, timerFired>>
Leader == CHOOSE m \in Members : m.leader

Init == Members \in Shapes /\ alive = Members /\ phase = "running" /\ waitReturned = FALSE /\ reported = FALSE /\ timerFired = FALSE

\* the job is cancelled: SIGINT to the group; members that do not ignore it die
Cancel == /\ phase = "running" /\ ~waitReturned
          /\ phase' = "cancelled"
          /\ alive' = {m \in alive : m.ignoresInt}
          /\ UNCHANGED <<waitReturned, reported, timerFired, Members>>
\* the kill timeout passes: SIGKILL to the group
Timeout == /\ phase = "cancelled" /\ ~timerFired
           /\ timerFired' = TRUE /\ alive' = {}
           /\ UNCHANGED <<phase, waitReturned, reported, Members>>
\* a member ends by itself
Exit(m) == /\ m \in alive /\ alive' = alive \ {m}
           /\ UNCHANGED <<phase, waitReturned, reported, timerFired, Members>>
\* cmd.Wait(): leader gone and the output pipe has no writer left
WaitReturns == /\ ~waitReturned /\ Leader \notin alive /\ \A m \in alive : ~m.holdsPipe
               /\ waitReturned' = TRUE
               /\ alive' = IF KillWhenLeaderGone /\ phase = "cancelled" THEN {} ELSE alive
               /\ UNCHANGED <<phase, reported, timerFired, Members>>
Report == /\ waitReturned /\ ~reported /\ reported' = TRUE
          /\ UNCHANGED <<alive, phase, waitReturned, timerFired, Members>>

Next == Cancel \/ Timeout \/ (\E m \in Members : Exit(m)) \/ WaitReturns \/ Report
Spec == Init /\ [][Next]_vars /\ WF_vars(Timeout) /\ WF_vars(WaitReturns) /\ WF_vars(Report)

\* once a cancelled job is reported finished no process of its tasks is alive any more
NoSurvivor == (reported /\ phase = "cancelled") => alive = {}
\* a cancelled command is reported finished, and no later than the kill timeout
Bounded == (phase = "cancelled") ~> reported
ReportedByTimeout == (phase = "cancelled" /\ timerFired) => (waitReturned \/ ENABLED WaitReturns)
=============================================================================

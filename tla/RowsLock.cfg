SPECIFICATION Spec
CHECK_DEADLOCK FALSE
ALIAS Alias
INVARIANTS C13_LockDiscipline C13_ConsistentSnapshots C13_NoRaceReport

SPECIFICATION Spec
CHECK_DEADLOCK FALSE
ALIAS Alias
INVARIANTS C13_LockDiscipline C13_ConsistentSnapshots C13_NoRaceReport
  C01_ConcurrentSnapshots C05_ConcurrentSnapshots C11_ConcurrentShutdown C16_ConcurrentReload C08_ConcurrentVerdict C06_ConcurrentFifo C07_ConcurrentDelay

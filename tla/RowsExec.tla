------------------------------ MODULE RowsExec ------------------------------
(* validates the rows recorded from real task executions (harness/realprobe TestExec) against Expected of TaskExec.tla *)
EXTENDS TaskExec, Json
Rows == ndJsonDeserialize("exec_rows.ndjson")
VARIABLES kind, l
Init == kind = "exec" /\ l = 1
Next == l < Len(Rows) /\ l' = l + 1 /\ UNCHANGED kind
Spec == Init /\ [][Next]_<<kind, l>>
R == Rows[l]
CaseOf(r) == [allow |-> r.allow, o1 |-> r.o1, o2 |-> r.o2, cancelAt |-> r.cancelAt, dep |-> r.dep]
Obs(r) == [ran1 |-> r.ran1, ran2 |-> r.ran2, status |-> r.status, errored |-> r.errored, canceled |-> r.canceled, exit |-> r.exit,
           jobCompleted |-> r.jobCompleted, jobCanceled |-> r.jobCanceled, lastErr |-> r.lastErr, nextRan |-> r.nextRan]
AsExpected(r) == r.reported /\ CaseOf(r) \in Cases /\ Obs(r) = Expected(CaseOf(r))
\* C04: the cases in which a cancel interrupts the task
C04_RealCancel == (l <= Len(Rows) /\ R.cancelAt > 0) => AsExpected(R)
\* C08: the cases without a cancel (failure, allow_failure, dependent task)
C08_RealVerdict == (l <= Len(Rows) /\ R.cancelAt = 0) => AsExpected(R)
\* every case of the specification was run
ASSUME {CaseOf(Rows[i]) : i \in 1 .. Len(Rows)} = Cases
Alias == [kind |-> kind, line |-> l]
=============================================================================

INIT Init
NEXT Next
CONSTANT MaxSize = 4

SPECIFICATION FairSpec
CONSTANTS
 NP = 1
 MaxJobs = 2
 VerTable <- MCVerTable
 InitCfgs <- MCInitCfgs
 Reloads <- MCReloads
 MaxReloads = 1
 MaxTicks = 3
 BadKinds <- MCBad
 MaxOps = 3
 Features <- MCFeatures
 Gen = FALSE
CHECK_DEADLOCK FALSE
ALIAS Alias
PROPERTIES L_C03 L_C04

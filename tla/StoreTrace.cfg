SPECIFICATION Spec
CHECK_DEADLOCK FALSE
ALIAS Alias
INVARIANTS C09_PublishedComplete C09_FailedSaveKeepsOldFile C09_ReturnedIsCurrent C09_KillLoadsLastPublished

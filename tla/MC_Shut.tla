------------------------------ MODULE MC_Shut ------------------------------
(* shutdown (graceful and forced) with a running and a waiting job, persist loop on, the pipeline may be removed by a reload *)
EXTENDS Prunner, Catalog
MCVerTable == <<
  MkRet(1, 1, -1, 0, 0, GSingle),     \* 1 one slot, queue
  MkRet(1, 1, 1, 0, 0, GChain)        \* 2 one slot, chain of two tasks, queue of 1
>>
MCInitCfgs == {<<1>>, <<2>>}
MCReloads == {<<1, 0>>}
MCBad == {"none"}
MCFeatures == {"shutdown", "persist"}
==============================================================================

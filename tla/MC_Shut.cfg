SPECIFICATION Spec
CONSTANTS
 NP = 1
 MaxJobs = 3
 VerTable <- MCVerTable
 InitCfgs <- MCInitCfgs
 Reloads <- MCReloads
 MaxReloads = 1
 MaxTicks = 0
 BadKinds <- MCBad
 MaxOps = 4
 Features <- MCFeatures
 Gen = FALSE
CHECK_DEADLOCK FALSE
ALIAS Alias
INVARIANTS TypeOK WaitListSound WaitListComplete
 PrC01_RunLimit PrC04_ReportedCanceled PrC05_Table PrC11_AllTerminal PrC11_StoreMatches PrC11_RejectAfter PrC11_GracefulRunsOut PrC11_ForcedCancels PrC11_ForcedStops PrC11_PersistWithinInterval PrC15_SchedulableIffAccepted

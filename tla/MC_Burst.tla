------------------------------ MODULE MC_Burst ------------------------------
(* a burst of requests for a delayed pipeline with a queue: the start timers of the jobs expire at the same instant and   *)
(* their callbacks run in either order (the driver issues the requests of these scripts without letting time pass between) *)
EXTENDS Prunner, Catalog
MCVerTable == <<
  MkVer(1, 1, -1, FALSE, 2, FALSE, GSingle, FALSE),   \* 1 delay 2, one slot, unbounded queue (append)
  MkVer(1, 2, 3, FALSE, 1, FALSE, GSingle, FALSE)     \* 2 delay 1, two slots, queue of 3
>>
MCInitCfgs == {<<1>>, <<2>>}
MCReloads == {}
MCBad == {"none"}
MCFeatures == {}
==============================================================================

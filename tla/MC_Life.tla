------------------------------ MODULE MC_Life ------------------------------
EXTENDS Prunner, Catalog

MCVerTable == <<
  MkRet(1, 1, -1, 0, 0, GSingle),     \* 1 no retention
  MkRet(1, 2, -1, 1, 0, GSingle),     \* 2 keep 1, conc 2
  MkRet(1, 1, 1, 0, 1, GChain),       \* 3 period 1 tick
  MkRet(1, 1, -1, 2, 2, GSingle)      \* 4 keep 2, period 2
>>
MCInitCfgs == {<<v>> : v \in 1 .. 4}
MCReloads == {<<1, 0>>, <<1, 1>>, <<1, 2>>}
MCBad == {"none"}
MCFeatures == {"cancel", "save", "persist", "shutdown", "restart"}
==============================================================================

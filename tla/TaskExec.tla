------------------------------ MODULE TaskExec ------------------------------
(***************************************************************************)
(* The execution of one task by the real task runner (taskctl/runner.go,    *)
(* TaskRunner.Run / execute) and what the pipeline runner reports for it     *)
(* (HandleTaskChange, HandleStageChange, JobCompleted in prunner.go), over   *)
(* the full case space of a two-line script:                                 *)
(*   every line succeeds or exits non-zero, the task is allow_failure or     *)
(*   not, a cancel of the job arrives while line 1 or 2 runs or not at all,  *)
(*   a second task depends on the task or not.                               *)
(*                                                                         *)
(* Roles as for the other case specs: TLC checks the design-level            *)
(* statements over all cases (ASSUME below); harness/realprobe runs every    *)
(* case with real processes through the real PipelineRunner; the recorded    *)
(* rows are validated by TLC against Expected (RowsExec.tla).  The E1 driver *)
(* replaces this runner by a scripted fake: the cases here are also the      *)
(* contract the fake is written to.                                          *)
(***************************************************************************)
EXTENDS Integers, Sequences, FiniteSets, TLC

Lines == 1 .. 2
FailCode == 3

Cases == {c \in [allow : BOOLEAN, o1 : {"ok", "fail"}, o2 : {"ok", "fail"}, cancelAt : 0 .. 2, dep : BOOLEAN] :
             \* the line a cancel interrupts, and the lines after it, have no outcome of their own (normal form: "ok")
             /\ (c.cancelAt = 1 => c.o1 = "ok" /\ c.o2 = "ok")
             /\ (c.cancelAt = 2 => c.o2 = "ok")
             \* a cancel can only hit line 2 if line 2 is reached
             /\ (c.cancelAt = 2 => (c.o1 = "ok" \/ c.allow))}

O(c, k) == IF k = 1 THEN c.o1 ELSE c.o2

\* execute(): the lines run in order; a non-zero exit sets the exit code and, for an allow_failure task, is notified and
\* skipped over; any other error (and a non-zero exit of a task that is not allow_failure) marks the task errored and ends it;
\* an interrupted line returns the context's error, allow_failure or not
RECURSIVE Exec(_, _, _)
Exec(c, k, s) ==
  IF k > 2 THEN [s EXCEPT !.ret = "nil"]
  ELSE LET s1 == [s EXCEPT !.ran = @ \cup {k}] IN
       IF c.cancelAt = k THEN [s1 EXCEPT !.ret = "canceled"]
       ELSE IF O(c, k) = "fail"
            THEN IF c.allow THEN Exec(c, k + 1, [s1 EXCEPT !.exit = FailCode])
                 ELSE [s1 EXCEPT !.exit = FailCode, !.ret = "exit"]
            ELSE Exec(c, k + 1, s1)

\* (the exit code of a task starts as -1 and is only reset to 0 in a deferred step of Run that is not notified any more: a task
\* none of whose lines failed is reported with exit code -1)
Run(c) == Exec(c, 1, [ran |-> {}, exit |-> -1, ret |-> "none"])

\* what the pipeline runner reports once the job is completed
Expected(c) ==
  LET r == Run(c) IN
  [ran1 |-> 1 \in r.ran, ran2 |-> 2 \in r.ran,
   \* HandleTaskChange: an error that is the context's cancellation marks the task canceled, any other error errored;
   \* HandleStageChange: canceled wins over the stage status
   status |-> IF r.ret = "canceled" THEN "canceled" ELSE IF r.ret = "exit" THEN "error" ELSE "done",
   errored |-> r.ret = "exit",
   canceled |-> r.ret = "canceled",
   exit |-> r.exit,
   \* the job: Schedule returns the stage's error; JobCompleted marks the job canceled iff that is the context's cancellation
   jobCompleted |-> TRUE,
   jobCanceled |-> r.ret = "canceled",
   lastErr |-> IF r.ret = "canceled" THEN "canceled" ELSE IF r.ret = "exit" THEN "exit" ELSE "none",
   \* the dependent task runs iff the task ended done
   nextRan |-> c.dep /\ r.ret = "nil"]

-----------------------------------------------------------------------------
(* design-level statements over all cases *)

\* C04: a cancel that interrupts a task is never reported as anything but canceled - whatever the task's allow_failure
\* setting - and nothing of the job runs afterwards
CancelIsReportedCanceled ==
  \A c \in Cases : c.cancelAt > 0 =>
     LET e == Expected(c) IN /\ e.jobCanceled /\ e.status = "canceled" /\ e.canceled /\ ~e.errored /\ e.lastErr = "canceled" /\ ~e.nextRan
                             /\ (c.cancelAt = 1 => ~e.ran2)
\* C08: a failing task fails the job unless it is allow_failure; an allow_failure task never fails it and all its lines run
FailureVerdict ==
  \A c \in Cases : c.cancelAt = 0 =>
     LET e == Expected(c)
         failed == c.o1 = "fail" \/ c.o2 = "fail" IN
     /\ (failed /\ ~c.allow) <=> (e.lastErr = "exit" /\ e.status = "error" /\ e.errored)
     /\ (~failed \/ c.allow) <=> (e.lastErr = "none" /\ e.status = "done" /\ ~e.errored /\ e.ran1 /\ e.ran2)
     /\ ~e.jobCanceled
     /\ (c.dep => (e.nextRan <=> e.status = "done"))
\* lines after the one that ended the task never run
NothingAfterTheEnd ==
  \A c \in Cases : LET e == Expected(c) IN (c.o1 = "fail" /\ ~c.allow /\ c.cancelAt = 0) => ~e.ran2

ASSUME CancelIsReportedCanceled
ASSUME FailureVerdict
ASSUME NothingAfterTheEnd
ASSUME Cardinality(Cases) = 26
=============================================================================

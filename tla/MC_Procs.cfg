SPECIFICATION Spec
CONSTANTS
 Shapes <- MCShapes
 KillWhenLeaderGone = TRUE
CHECK_DEADLOCK FALSE
INVARIANTS NoSurvivor ReportedByTimeout
PROPERTIES Bounded

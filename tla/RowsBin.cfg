SPECIFICATION Spec
CHECK_DEADLOCK FALSE
ALIAS Alias
INVARIANTS C08_Binary C10_Binary C11_Binary C14_Binary C16_Binary C17_Binary C18_Binary C20_Binary

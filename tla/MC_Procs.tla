------------------------------ MODULE MC_Procs ------------------------------
EXTENDS Procs
P(id, leader, ign, pipe) == [id |-> id, leader |-> leader, ignoresInt |-> ign, holdsPipe |-> pipe]
\* leader + two descendants with every combination of (ignores SIGINT, holds the pipe); the leader itself may ignore SIGINT
MCShapes == {{P(1, TRUE, li, TRUE), P(2, FALSE, a, b), P(3, FALSE, c, d)} : li \in BOOLEAN, a \in BOOLEAN, b \in BOOLEAN, c \in BOOLEAN, d \in BOOLEAN}
==============================================================================

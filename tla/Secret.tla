------------------------------- MODULE Secret -------------------------------
(***************************************************************************)
(* C14 speaks of "the configured secret": which secret that is             *)
(* (config/config.go, LoadOrCreateConfig), over the full case space of the   *)
(* two sources: the command line / environment and the config file.          *)
(*   a secret given on the command line wins if it is valid; a too short one *)
(*   is an error, it is never silently replaced; without one the file is     *)
(*   read; a missing file is created with a fresh random secret of 32        *)
(*   characters; a file without a valid secret is an error.                  *)
(* TLC checks the design statements (ASSUME); harness/authprobe runs every    *)
(* case against the real function; RowsSecret validates the rows.            *)
(***************************************************************************)
EXTENDS Integers, Sequences, FiniteSets, TLC

MinLen == 16
CliKinds == {"absent", "short", "valid"}
FileKinds == {"absent", "malformed", "empty", "short", "valid"}
Cases == [cli : CliKinds, file : FileKinds]

\* source of the secret that is in force: "cli" | "file" | "generated", or "error" (the process does not start)
Expected(c) ==
  IF c.cli = "valid" THEN [source |-> "cli", created |-> FALSE]
  ELSE IF c.cli = "short" THEN [source |-> "error", created |-> FALSE]
  ELSE IF c.file = "absent" THEN [source |-> "generated", created |-> TRUE]
  ELSE IF c.file = "valid" THEN [source |-> "file", created |-> FALSE]
  ELSE [source |-> "error", created |-> FALSE]

\* a process never runs with a secret that is shorter than the minimum, whatever the sources say
NeverWeak == \A c \in Cases : (c.cli = "short" \/ (c.cli = "absent" /\ c.file \in {"short", "empty", "malformed"})) => Expected(c).source = "error"
\* an explicit secret is never replaced by another source, and a file is only ever written when there was none
ExplicitWins == \A c \in Cases : /\ (c.cli = "valid" => Expected(c).source = "cli")
                                 /\ (Expected(c).created => c.cli = "absent" /\ c.file = "absent")
ASSUME NeverWeak
ASSUME ExplicitWins
=============================================================================

------------------------------ MODULE Catalog ------------------------------
(* Catalogue of definition versions used by the model configurations and,   *)
(* through TLC's JSON output, by the scripts replayed against the real code *)
EXTENDS Integers, Sequences

T(name, deps, allow, empty) == [name |-> name, deps |-> deps, allow |-> allow, empty |-> empty]

\* task graphs
GSingle  == << T("a", <<>>, FALSE, FALSE) >>
GChain   == << T("a", <<>>, FALSE, FALSE), T("b", <<1>>, FALSE, FALSE) >>
GPar     == << T("a", <<>>, FALSE, FALSE), T("b", <<>>, FALSE, FALSE) >>
GFanIn   == << T("x", <<>>, FALSE, FALSE), T("y", <<>>, TRUE, FALSE), T("m", <<1, 2>>, FALSE, FALSE) >>
GDiamond == << T("r", <<>>, FALSE, FALSE), T("c", <<1>>, FALSE, FALSE), T("b", <<1>>, FALSE, FALSE), T("a", <<2, 3>>, FALSE, FALSE) >>
GAllowCh == << T("a", <<>>, TRUE, FALSE), T("b", <<1>>, FALSE, FALSE), T("c", <<2>>, TRUE, FALSE) >>
GEmpty   == << T("a", <<>>, FALSE, TRUE), T("b", <<1>>, FALSE, FALSE) >>
GCycle   == << T("a", <<2>>, FALSE, FALSE), T("b", <<1>>, FALSE, FALSE) >>
GSelf    == << T("a", <<1>>, FALSE, FALSE) >>
GMixed   == << T("z", <<>>, FALSE, FALSE), T("a", <<1>>, TRUE, FALSE), T("m", <<>>, FALSE, FALSE), T("k", <<2, 3>>, FALSE, FALSE) >>

MkVer(p, conc, qlimit, replace, delay, cont, tasks, cyclic) ==
  [p |-> p, conc |-> conc, qlimit |-> qlimit, replace |-> replace, delay |-> delay, cont |-> cont,
   retCount |-> 0, retPeriod |-> 0, tasks |-> tasks, cyclic |-> cyclic]
\* with retention settings (retPeriod in ticks)
MkRet(p, conc, qlimit, retCount, retPeriod, tasks) ==
  [p |-> p, conc |-> conc, qlimit |-> qlimit, replace |-> FALSE, delay |-> 0, cont |-> FALSE,
   retCount |-> retCount, retPeriod |-> retPeriod, tasks |-> tasks, cyclic |-> FALSE]
=============================================================================

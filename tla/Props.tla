------------------------------- MODULE Props -------------------------------
(***************************************************************************)
(* The listed properties of prunner, written ONCE over the observable       *)
(* vocabulary:                                                               *)
(*   st   the vocabulary after the current step (what a client and the      *)
(*        injected task runner can see)                                      *)
(*   ev   the event that produced st                                         *)
(*   pre  the most recent quiescent vocabulary strictly before this step     *)
(*   tbl  the table of definition versions (static per run)                 *)
(* The module is instantiated twice: by Prunner.tla through a refinement    *)
(* mapping (TLC checks the formulas for the design), and by ObsTrace.tla     *)
(* with the variables fed from traces recorded from the real code (TLC as    *)
(* run-time monitor).                                                        *)
(***************************************************************************)
EXTENDS Integers, Sequences, FiniteSets, TLC

VARIABLES st, ev, pre, tbl

pvars == <<st, ev, pre, tbl>>

JobIds(s) == 1 .. Len(s.jobs)
J == JobIds(st)
Pipes == 1 .. Len(st.cfg)

V(j) == tbl[st.jobs[j].ver]                 \* definition version at acceptance
TaskIds(j) == 1 .. Len(V(j).tasks)
Deps(j, t) == {V(j).tasks[t].deps[i] : i \in 1 .. Len(V(j).tasks[t].deps)}

Executing(s, j) == s.jobs[j].listed /\ s.jobs[j].started /\ ~s.jobs[j].completed /\ ~s.jobs[j].canceled
Waiting(s, j)   == s.jobs[j].listed /\ ~s.jobs[j].started /\ ~s.jobs[j].canceled
Finished(s, j)  == s.jobs[j].completed \/ s.jobs[j].canceled
Of(s, p)        == {j \in JobIds(s) : s.jobs[j].p = p}
Exec(s, p)      == {j \in Of(s, p) : Executing(s, j)}
Wait(s, p)      == {j \in Of(s, p) : Waiting(s, j)}
Plain(s, j)     == s.jobs[j].completed /\ ~s.jobs[j].canceled /\ s.jobs[j].lastErr = "" /\ ~s.jobs[j].errored
\* "reported completed, not canceled and without error" (the job's own verdict; a task may still carry an error of its own)
PlainVerdict(s, j) == s.jobs[j].completed /\ ~s.jobs[j].canceled /\ s.jobs[j].lastErr = ""

Defined(p)   == st.cfg[p].def
Cur(p)       == tbl[st.cfg[p].ver]           \* definition in force (only if Defined(p))
SameEpoch(j) == st.jobs[j].epoch = st.cfg[st.jobs[j].p].epoch
Quiet        == st.quiet
IsOp(o)      == ev.k = "Op" /\ st.last.op = o /\ st.last.res # "skip"
Known(s, j)  == j \in JobIds(s)

Run(j, t) == st.runs[j][t]
\* outcomes of a Run: "ok"; "fail" (non-zero exit status); "err" (another error: the task is reported errored even if it is
\* allow_failure, but an allow_failure task never blocks its dependents); "canceled"; "lost" (process died in a restart)
OkFor(j, d) == Run(j, d).outcome = "ok" \/ (Run(j, d).outcome \in {"fail", "err"} /\ V(j).tasks[d].allow)
FailedHard(j, t) == Run(j, t).outcome \in {"fail", "err"} /\ ~V(j).tasks[t].allow
\* the task is reported errored (which triggers fail-fast)
Errored(j, t) == FailedHard(j, t) \/ Run(j, t).outcome = "err"
UserCause(j) == st.ack[j].n > 0 \/ st.ack[j].req > 0 \/ st.shut # "no" \/ st.stop[j].byShutdown

BecameStarted(j) == Quiet /\ st.jobs[j].started /\ ~(Known(pre, j) /\ pre.jobs[j].started)

RECURSIVE Anc(_, _, _)
Anc(j, t, n) == IF n = 0 THEN {} ELSE Deps(j, t) \cup UNION {Anc(j, d, n - 1) : d \in Deps(j, t)}
Ancestors(j, t) == Anc(j, t, Len(V(j).tasks))

-----------------------------------------------------------------------------
(* C01 - concurrency limit *)

C01_LimitAtStart ==
  Quiet => \A p \in Pipes : (Defined(p) /\ \E j \in Of(st, p) : BecameStarted(j))
                 => Cardinality(Exec(st, p)) <= Cur(p).conc

C01_RunInsideSpan ==
  \A j \in J : \A t \in TaskIds(j) :
     /\ Run(j, t).begun > 0 => Run(j, t).execAtBegin
     /\ (Run(j, t).begun > 0 /\ ~Run(j, t).open) => Run(j, t).execAtEnd
     /\ (Quiet /\ Run(j, t).open) => Executing(st, j)

OpenJobs(p) == {j \in Of(st, p) : \E t \in TaskIds(j) : Run(j, t).open}
C01_RunLimit ==
  \A p \in Pipes : (Defined(p) /\ \A j \in OpenJobs(p) : SameEpoch(j))
                 => Cardinality(OpenJobs(p)) <= Cur(p).conc

-----------------------------------------------------------------------------
(* C02 - tasks at most once, after their dependencies *)

C02_AtMostOnce == \A j \in J : \A t \in TaskIds(j) : Run(j, t).begun <= 1

\* read at the step in which a Run begins (action property: st is the previous line, st' the current one)
Began(j, t) == st'.runs[j][t].begun > (IF j \in JobIds(st) THEN st.runs[j][t].begun ELSE 0)
C02_DepsFirstAct ==
  \A j \in J' : \A t \in (TaskIds(j))' : Began(j, t) =>
     \A d \in (Deps(j, t))' : (Run(j, d).begun = 1 /\ ~Run(j, d).open /\ OkFor(j, d))'
C02_DepsFirst == [][C02_DepsFirstAct]_pvars

C02_SuccessMeansAll ==
  Quiet => \A j \in J : Plain(st, j) => \A t \in TaskIds(j) : Run(j, t).begun = 1 /\ ~Run(j, t).open

C02_CyclicNeverRuns ==
  \A j \in J : V(j).cyclic =>
     /\ \A t \in TaskIds(j) : Run(j, t).begun = 0
     /\ (st.phase = "drained" /\ Defined(st.jobs[j].p) /\ st.jobs[j].listed) => (st.jobs[j].canceled /\ (st.jobs[j].lastErr # "" \/ UserCause(j) \/ ~st.jobs[j].started))

StartFailed(s, j) == s.jobs[j].listed /\ s.jobs[j].canceled /\ ~s.jobs[j].started /\ s.jobs[j].lastErr \notin {"", "canceled"}
NoTrouble(j) == /\ st.stop[j].n = 0 /\ st.ack[j].n = 0 /\ ~st.jobs[j].rst /\ ~st.jobs[j].lost
                /\ \A t \in TaskIds(j) : Run(j, t).outcome \in {"none", "ok"} \/ (Run(j, t).outcome = "fail" /\ V(j).tasks[t].allow)
C02_AcyclicCompletes ==
  \A j \in J : (~V(j).cyclic /\ st.jobs[j].bad = "none") =>
     \* it is not refused at its start (a start that fails leaves the job canceled, never started, with the error of the attempt -
     \* whatever the wording of that error)
     /\ ~StartFailed(st, j)
     /\ (st.phase = "drained" /\ st.jobs[j].listed /\ st.jobs[j].started /\ NoTrouble(j)) =>
           (Plain(st, j) /\ \A t \in TaskIds(j) : Run(j, t).begun = 1)

-----------------------------------------------------------------------------
(* C03 - nothing stranded *)

C03_Drained ==
  st.phase = "drained" => \A j \in J : Defined(st.jobs[j].p) => ~Waiting(st, j)

TimerDue(j) == st.now >= st.jobs[j].accAt + V(j).delay
C03_NoIdleHead ==
  (Quiet /\ st.phase = "run") => \A p \in Pipes :
     (Defined(p) /\ Wait(st, p) # {} /\ \A j \in Wait(st, p) \cup Exec(st, p) : SameEpoch(j)) =>
        LET h == CHOOSE j \in Wait(st, p) : \A k \in Wait(st, p) : j <= k
        IN  ~(TimerDue(h) /\ Cardinality(Exec(st, p)) < Cur(p).conc)

-----------------------------------------------------------------------------
(* C04 - acknowledged cancel *)

Acked(j) == st.ack[j].n > 0 /\ ~st.ack[j].wasFinished

C04_NotStartedNeverRuns ==
  \A j \in J : (Acked(j) /\ ~st.ack[j].wasStarted) =>
     /\ \A t \in TaskIds(j) : Run(j, t).begun = 0
     /\ (Quiet /\ st.jobs[j].listed) => (st.jobs[j].canceled /\ ~st.jobs[j].started)

C04_StopDelivered ==
  Quiet => \A j \in J : (Acked(j) /\ st.ack[j].wasStarted) =>
     /\ (\E t \in TaskIds(j) : st.ack[j].openAtAck[t]) => st.stop[j].n >= 1
     /\ \A t \in TaskIds(j) : st.ack[j].openAtAck[t] => ~Run(j, t).open

C04_NoNewTaskAfterStop ==
  \A j \in J : st.stop[j].n >= 1 => \A t \in TaskIds(j) : Run(j, t).begun > 0 => st.stop[j].begunBefore[t]

C04_ReportedCanceled ==
  Quiet => \A j \in J : (Acked(j) /\ st.ack[j].wasStarted /\ st.jobs[j].listed /\ ~st.jobs[j].rst /\ (st.jobs[j].completed \/ st.phase = "drained")
                           /\ \E t \in TaskIds(j) : ~st.ack[j].okAtAck[t]) =>
     /\ ~Plain(st, j)
     /\ ~st.ack[j].failedAtAck => st.jobs[j].canceled
     \* a task that is not allow_failure was executing and had not been told to stop before: it is interrupted by this
     \* cancel, and the job ends canceled even if another task had failed earlier
     /\ (~st.ack[j].stopBefore /\ \E t \in TaskIds(j) : st.ack[j].openAtAck[t] /\ ~V(j).tasks[t].allow) => st.jobs[j].canceled

JobSame(j) == Known(pre, j) /\ st.jobs[j] = pre.jobs[j] /\ st.runs[j] = pre.runs[j]
C04_Results ==
  IsOp("cancel") =>
     IF st.last.j = 0 THEN st.last.res = "err" /\ st.last.err = "notfound"
     ELSE LET j == st.last.j IN
          /\ (pre.jobs[j].listed /\ pre.jobs[j].canceled) => (st.last.res = "ok" /\ JobSame(j))
          /\ (pre.jobs[j].listed /\ pre.jobs[j].completed /\ ~pre.jobs[j].canceled) => (st.last.res = "err" /\ JobSame(j))
          /\ (pre.jobs[j].listed /\ ~Finished(pre, j)) => st.last.res = "ok"
          /\ ~pre.jobs[j].listed => (st.last.res = "err" /\ st.last.err = "notfound")

-----------------------------------------------------------------------------
(* C05 - admission table *)

Expected(p) ==
  LET c == tbl[pre.cfg[p].ver]
      ex == Cardinality(Exec(pre, p))
      w == Cardinality(Wait(pre, p))
  IN  IF ex < c.conc /\ c.delay = 0 THEN "start"
      ELSE IF c.qlimit = 0 THEN "reject"
      ELSE IF c.replace /\ w > 0 THEN "replace"
      ELSE IF c.qlimit >= 0 /\ w >= c.qlimit THEN "reject"
      ELSE "append"

NewlyCanceled == {j \in JobIds(pre) : ~pre.jobs[j].canceled /\ st.jobs[j].canceled}
Observed(p) ==
  IF st.last.res = "err" THEN "reject"
  ELSE LET n == st.last.new IN
       IF n # Len(pre.jobs) + 1 \/ Len(st.jobs) # n \/ ~st.jobs[n].listed THEN "other"
       ELSE IF st.jobs[n].bad # "none" \/ V(n).cyclic
            \* a job whose graph cannot be built is canceled by the attempt to start it (and that attempt processes the wait
            \* list, which may start - or fail to start - other waiting jobs)
            THEN (IF StartFailed(st, n) THEN "start"
                  ELSE IF Waiting(st, n) /\ NewlyCanceled = {} THEN "append"
                  ELSE IF Waiting(st, n) THEN "replace" ELSE "other")
       ELSE IF st.jobs[n].started /\ NewlyCanceled = {} THEN "start"
       ELSE IF Waiting(st, n) /\ NewlyCanceled = {} THEN "append"
       ELSE IF Waiting(st, n) /\ Wait(pre, p) # {} /\ NewlyCanceled = {CHOOSE j \in Wait(pre, p) : \A k \in Wait(pre, p) : k <= j}
            THEN "replace"
       ELSE "other"

SchedOp == IsOp("schedule") /\ st.last.p \in Pipes /\ pre.phase = "run" /\ st.phase = "run"

C05_Table ==
  (SchedOp /\ pre.cfg[st.last.p].def) => Observed(st.last.p) = Expected(st.last.p)

C05_RejectNoTrace ==
  (IsOp("schedule") /\ st.last.res = "err") =>
     /\ st.jobs = pre.jobs /\ st.runs = pre.runs /\ st.extra = 0
     /\ st.pipes = pre.pipes /\ st.last.new = 0

C05_Bound ==
  (Quiet /\ st.phase = "run") => \A p \in Pipes :
     (Defined(p) /\ \A j \in Wait(st, p) : SameEpoch(j)) =>
        /\ Cur(p).qlimit >= 0 => Cardinality(Wait(st, p)) <= Cur(p).qlimit
        /\ Cur(p).replace => Cardinality(Wait(st, p)) <= 1

C05_UndefinedRejected ==
  (IsOp("schedule") /\ (st.last.p \notin Pipes \/ ~pre.cfg[st.last.p].def)) => st.last.res = "err"

-----------------------------------------------------------------------------
(* C06 - FIFO *)

C06_Fifo ==
  Quiet => \A j \in J : (BecameStarted(j) /\ Known(pre, j) /\ Waiting(pre, j) /\ SameEpoch(j)) =>
     ~\E k \in Of(st, st.jobs[j].p) : k < j /\ Waiting(st, k) /\ st.jobs[k].epoch = st.jobs[j].epoch

-----------------------------------------------------------------------------
(* C07 - start delay lower bound, debounce *)

C07_NotBefore ==
  Quiet => \A j \in J : st.jobs[j].started => st.jobs[j].startAt - st.jobs[j].accAt >= V(j).delay

C07_NeverStartedNeverRuns ==
  \A j \in J : (Quiet /\ st.jobs[j].listed /\ ~st.jobs[j].rst /\ st.jobs[j].canceled /\ ~st.jobs[j].started) => \A t \in TaskIds(j) : Run(j, t).begun = 0

C07_NewestWins ==
  (Quiet /\ st.phase \in {"run", "drained"}) => \A j \in J : \A k \in J :
     (j < k /\ st.jobs[j].p = st.jobs[k].p /\ Defined(st.jobs[j].p) /\ SameEpoch(j) /\ SameEpoch(k)
      /\ V(j).replace /\ Waiting(st, j) /\ ~st.jobs[k].started)
        => (Waiting(st, k) \/ st.ack[k].n > 0 \/ st.jobs[k].bad # "none" \/ V(k).cyclic)

C07_NewestRuns ==
  st.phase = "drained" => \A p \in Pipes : (Defined(p) /\ Cur(p).replace) =>
     LET S == {j \in Of(st, p) : SameEpoch(j) /\ st.jobs[j].listed /\ ~st.jobs[j].rst} IN
     S # {} => LET n == CHOOSE j \in S : \A k \in S : k <= j IN
               (st.jobs[n].started \/ st.ack[n].n > 0 \/ st.jobs[n].bad # "none" \/ V(n).cyclic)

-----------------------------------------------------------------------------
(* C08 - failure handling and verdict *)

C08_NoRunAfterFailedDepAct ==
  \A j \in J' : \A t \in (TaskIds(j))' : Began(j, t) =>
     \A a \in (Ancestors(j, t))' : (~FailedHard(j, a) /\ Run(j, a).outcome # "canceled")'
C08_NoRunAfterFailedDep == [][C08_NoRunAfterFailedDepAct]_pvars

FlagStable(j) == Defined(st.jobs[j].p) /\ Cur(st.jobs[j].p).cont = V(j).cont /\ SameEpoch(j)

C08_FailFast ==
  Quiet => \A j \in J : (FlagStable(j) /\ ~V(j).cont /\ st.jobs[j].listed /\ ~st.jobs[j].rst /\ \E t \in TaskIds(j) : Errored(j, t)) =>
     /\ \A t \in TaskIds(j) : ~Run(j, t).open
     /\ (st.jobs[j].completed \/ st.phase = "drained") => (st.jobs[j].errored \/ st.jobs[j].lastErr # "")
     /\ ~Plain(st, j)

C08_FailFastNoNewTask ==
  \A j \in J : (FlagStable(j) /\ ~V(j).cont) => \A t \in TaskIds(j) : Errored(j, t) =>
     \A u \in TaskIds(j) : (Run(j, u).begun > 0 /\ u # t) => Run(j, u).begunAt <= Run(j, t).endedAt

C08_Continue ==
  \A j \in J : (FlagStable(j) /\ V(j).cont) =>
     /\ st.stop[j].n >= 1 => UserCause(j)
     /\ (st.phase = "drained" /\ st.jobs[j].listed /\ ~st.jobs[j].rst /\ st.jobs[j].started /\ ~UserCause(j)) =>
           \A t \in TaskIds(j) : (\A a \in Ancestors(j, t) : OkFor(j, a)) =>
               (Run(j, t).begun = 1 /\ ~Run(j, t).open)

C08_VerdictSound ==
  Quiet => \A j \in J : PlainVerdict(st, j) => \A t \in TaskIds(j) : Run(j, t).begun = 1 /\ ~Run(j, t).open /\ OkFor(j, t)

C08_NoRunningAfterCompleted ==
  Quiet => \A j \in J : st.jobs[j].completed => \A t \in TaskIds(j) : st.jobs[j].tasks[t].status # "running"


-----------------------------------------------------------------------------
(* C10 - restart from a persisted snapshot.  A "Restart" line: st is what the NEW runner reports, *)
(* pre is the last quiescent vocabulary of the old runner, pre.store the content of the store.  *)

IsRestart == ev.k = "Restart"

C10_AllTerminal ==
  IsRestart => \A j \in J : st.jobs[j].listed =>
     /\ Finished(st, j) /\ ~Executing(st, j) /\ ~Waiting(st, j)
     /\ (Known(pre, j) /\ pre.store.jobs[j].present /\ ~pre.store.jobs[j].completed /\ ~pre.store.jobs[j].canceled) => st.jobs[j].canceled
     /\ \A t \in TaskIds(j) : st.jobs[j].tasks[t].status # "running"

C10_NoGhosts ==
  IsRestart => \A p \in Pipes : Defined(p) => (st.pipes[p].listed /\ st.pipes[p].schedulable /\ ~st.pipes[p].running)

C10_SameSet ==
  IsRestart => /\ st.extra = 0 /\ pre.store.loaded
               /\ \A j \in J : Known(pre, j) => (st.jobs[j].listed <=> pre.store.jobs[j].present)

TaskSame(a, b) == /\ a.present = b.present /\ a.pos = b.pos /\ a.status = b.status /\ a.errored = b.errored /\ a.exit = b.exit
                  /\ a.hasStart = b.hasStart /\ a.startAt = b.startAt /\ a.hasEnd = b.hasEnd /\ a.endAt = b.endAt
C10_FinishedFaithful ==
  IsRestart => \A j \in J : (Known(pre, j) /\ pre.store.jobs[j].present /\ pre.store.jobs[j].same /\ Finished(pre, j)) =>
     LET a == pre.jobs[j]  b == st.jobs[j] IN
     /\ b.listed /\ b.faithful
     /\ a.started = b.started /\ a.completed = b.completed /\ a.canceled = b.canceled /\ a.errored = b.errored
     /\ a.lastErr = b.lastErr /\ a.hasEnd = b.hasEnd /\ a.startAt = b.startAt /\ a.endAt = b.endAt /\ a.createdAt = b.createdAt
     /\ a.ntasks = b.ntasks /\ \A t \in TaskIds(j) : TaskSame(a.tasks[t], b.tasks[t])

-----------------------------------------------------------------------------
\* "no concurrency or queue capacity is held by ghosts": a request for a pipeline some of whose jobs came back from a restart
\* (canceled, because they were unfinished) is decided exactly as the admission table says - the restored jobs hold nothing
C10_NoGhostCapacity ==
  (SchedOp /\ pre.cfg[st.last.p].def /\ \E j \in J : Known(pre, j) /\ pre.jobs[j].listed /\ pre.jobs[j].p = st.last.p /\ pre.jobs[j].rst)
     => Observed(st.last.p) = Expected(st.last.p)

-----------------------------------------------------------------------------
(* C11 - shutdown *)

ShutRet == Quiet /\ st.shut = "returned"
StoreAgrees == /\ st.store.loaded /\ st.store.extra = 0
               /\ \A j \in J : /\ st.jobs[j].listed <=> st.store.jobs[j].present
                               /\ st.jobs[j].listed => st.store.jobs[j].same

C11_AllTerminal ==
  ShutRet => \A j \in J : /\ st.jobs[j].listed => Finished(st, j)
                          /\ \A t \in TaskIds(j) : ~Run(j, t).open

C11_StoreMatches == ShutRet => StoreAgrees

C11_RejectAfter ==
  (IsOp("schedule") /\ pre.shut # "no") => (st.last.res = "err" /\ st.last.err = "shutdown")

C11_GracefulRunsOut ==
  (ShutRet /\ ~st.forced) => \A j \in J : st.jobs[j].listed =>
     /\ (st.jobs[j].started /\ NoTrouble(j)) => (Plain(st, j) /\ \A t \in TaskIds(j) : Run(j, t).begun = 1)
     /\ (st.stop[j].n >= 1 /\ st.stop[j].duringShut) => (st.ack[j].n > 0 \/ \E t \in TaskIds(j) : Errored(j, t))
     /\ ~st.jobs[j].started => st.jobs[j].canceled

\* after the deadline every job that is still executing has been told to stop (at the latest by the next quiescent moment)
C11_ForcedStops ==
  (Quiet /\ st.forced /\ st.shut # "no") => \A j \in J : (st.jobs[j].listed /\ Executing(st, j)) => st.stop[j].n >= 1

C11_ForcedCancels ==
  (ShutRet /\ st.forced) => \A j \in J : (st.jobs[j].listed /\ st.jobs[j].started /\ Plain(st, j)) =>
     \A t \in TaskIds(j) : Run(j, t).begun = 1 /\ OkFor(j, t)

C11_PersistWithinInterval ==
  (Quiet /\ st.phase = "run" /\ st.idle >= 3500) => StoreAgrees

-----------------------------------------------------------------------------
(* C12 - retention.  Removed: reported before the step and not after it. *)

Removed == {j \in JobIds(pre) : pre.jobs[j].listed /\ ~st.jobs[j].listed}
RetSet(p) == Defined(p) /\ (Cur(p).retCount > 0 \/ Cur(p).retPeriod > 0)
SaveLine == IsOp("save") \/ (ShutRet /\ ev.k = "Op")

\* a job that stops being reported was finished before the step, or was finished by the step itself (a cancel, a
\* replacement, a completion at a poll) - never by a save or reload step, and never with a task still executing
InertOp == ev.k = "Op" /\ st.last.op \in {"save", "reload", "finish"}
C12_KeepsUnfinished ==
  (Quiet /\ ~IsRestart) => \A j \in Removed : Defined(st.jobs[j].p) =>
     (Finished(pre, j) \/ (~InertOp /\ \A t \in TaskIds(j) : ~Run(j, t).open))

C12_NoSettingsNoRemoval ==
  (Quiet /\ ~IsRestart) => \A j \in Removed : (~Defined(st.jobs[j].p) \/ RetSet(st.jobs[j].p))

C12_NewestFirstClosure ==
  (Quiet /\ ~IsRestart) => \A j \in Removed : Defined(st.jobs[j].p) =>
     \A k \in JobIds(pre) : (k < j /\ pre.jobs[k].p = pre.jobs[j].p /\ pre.jobs[k].listed /\ Finished(pre, k)) => ~st.jobs[k].listed

C12_CountBound ==
  IsOp("save") => \A p \in Pipes : (Defined(p) /\ Cur(p).retCount > 0) =>
     Cardinality({j \in Of(st, p) : st.jobs[j].listed /\ Finished(st, j)}) <= Cur(p).retCount

C12_PeriodBound ==
  IsOp("save") => \A p \in Pipes : (Defined(p) /\ Cur(p).retPeriod > 0) =>
     \A j \in Of(st, p) : (st.jobs[j].listed /\ Finished(st, j)) => st.jobs[j].age <= Cur(p).retPeriod

C12_UndefinedPurged ==
  \* (a job whose tasks are still executing is purged by the first save after it finished)
  IsOp("save") => \A j \in J : ~Defined(st.jobs[j].p) => (~st.jobs[j].listed \/ Executing(st, j))

C12_ThreeViewsAgree ==
  IsOp("save") => /\ st.store.loaded /\ st.store.extra = 0 /\ st.xlogs = 0
                  /\ \A j \in J : /\ st.jobs[j].listed <=> st.store.jobs[j].present
                                  /\ (~st.jobs[j].listed /\ ~st.jobs[j].lost) => ~st.logs[j]
                                  /\ (st.jobs[j].listed /\ Known(pre, j) /\ pre.logs[j]) => st.logs[j]

-----------------------------------------------------------------------------
(* C15 - reports agree with behaviour *)

C15_SchedulableIffAccepted ==
  (SchedOp /\ pre.cfg[st.last.p].def /\ pre.pipes[st.last.p].listed) =>
     (pre.pipes[st.last.p].schedulable <=> st.last.res = "ok")

C15_RunningIffExecuting ==
  (Quiet /\ st.phase \in {"run", "drained"}) => \A p \in Pipes : Defined(p) =>
     /\ st.pipes[p].listed
     /\ st.pipes[p].running <=> (Exec(st, p) # {})

Retainable(j) == ~Defined(st.jobs[j].p) \/ Cur(st.jobs[j].p).retCount > 0 \/ Cur(st.jobs[j].p).retPeriod > 0
C15_ListedFromReturn ==
  Quiet => /\ st.extra = 0
           /\ \A j \in J : /\ st.jobs[j].listed <=> st.jobs[j].inList
                           /\ st.jobs[j].listed <=> st.jobs[j].byId
                           \* judged at the step in which the job stops being reported
                           /\ (~st.jobs[j].listed /\ ~IsRestart /\ ~st.jobs[j].lost /\ (Known(pre, j) => pre.jobs[j].listed)) =>
                                 Retainable(j)
                           /\ st.jobs[j].listed => st.jobs[j].jsonAgree

C15_NewestFirst ==
  Quiet => \A j \in J : \A k \in J :
     (st.jobs[j].inList /\ st.jobs[k].inList /\ st.jobs[j].createdAt < st.jobs[k].createdAt) => st.jobs[k].listPos < st.jobs[j].listPos

C15_TimesOrdered ==
  Quiet => \A j \in J : st.jobs[j].listed =>
     /\ st.jobs[j].started => st.jobs[j].createdAt <= st.jobs[j].startAt
     /\ (st.jobs[j].started /\ st.jobs[j].hasEnd) => st.jobs[j].startAt <= st.jobs[j].endAt
     /\ st.jobs[j].hasEnd => st.jobs[j].createdAt <= st.jobs[j].endAt
     /\ \A t \in TaskIds(j) : (st.jobs[j].tasks[t].hasStart /\ st.jobs[j].tasks[t].hasEnd) =>
           st.jobs[j].tasks[t].startAt <= st.jobs[j].tasks[t].endAt

C15_TaskOrder ==
  Quiet => \A j \in J : st.jobs[j].listed =>
     /\ st.jobs[j].ntasks = Len(V(j).tasks) /\ st.jobs[j].extraTasks = 0
     /\ \A t \in TaskIds(j) : st.jobs[j].tasks[t].present
     /\ ~V(j).cyclic => \A t \in TaskIds(j) : \A d \in Deps(j, t) : st.jobs[j].tasks[d].pos < st.jobs[j].tasks[t].pos
     /\ \A k \in J : (st.jobs[k].listed /\ st.jobs[k].ver = st.jobs[j].ver) =>
           \A t \in TaskIds(j) : st.jobs[k].tasks[t].pos = st.jobs[j].tasks[t].pos

-----------------------------------------------------------------------------
(* C16 - reload affects only later jobs *)

C16_SnapshotRuns ==
  \A j \in J : /\ st.jobs[j].extraTasks = 0
               /\ \A t \in TaskIds(j) : Run(j, t).begun > 0 => (Run(j, t).cmdOk /\ Run(j, t).envOk)

C16_ReloadIsInert ==
  IsOp("reload") => /\ st.jobs = pre.jobs /\ st.runs = pre.runs /\ st.stop = pre.stop /\ st.extra = 0

C16_AllTerminalAtDrain ==
  st.phase = "drained" => \A j \in J : (Defined(st.jobs[j].p) /\ st.jobs[j].listed) =>
     (Finished(st, j) /\ ~Executing(st, j))

=============================================================================

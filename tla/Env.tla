--------------------------------- MODULE Env ---------------------------------
(***************************************************************************)
(* C18: which value of an environment variable a task command sees.         *)
(* A name may be defined at any subset of the three levels (prunner process, *)
(* pipeline, task); the visible value is task |> pipeline |> process, and a *)
(* name that is defined at no level that applies to the task is unset.      *)
(* Jobs of another pipeline and other tasks never see values that were not  *)
(* defined for them.  TLC enumerates the cases, the probe runs real tasks    *)
(* (real TaskRunner, /bin/sh children) and the rows are validated against    *)
(* Visible.                                                                 *)
(***************************************************************************)
EXTENDS Integers, Sequences, FiniteSets, TLC

Levels == {"proc", "pipe", "task"}
\* one variable name per subset of levels (8 names), per payload class
LevelSets == SUBSET Levels
PayloadClasses == 0 .. 5        \* plain, spaces+quotes, newline, dollar/equals, non-ASCII, empty
\* observation points: (pipeline, task).  Pipeline p defines the "pipe" level; only task "t1" of p has a task-level env.
\* Task "t0" (sorted before t1) and "t2" (after t1) have none; pipeline q defines nothing at pipeline/task level.
Points == {<<"p", "t0">>, <<"p", "t1">>, <<"p", "t2">>, <<"q", "t1">>}

Cases == {[levels |-> ls, payload |-> pc, point |-> pt] : ls \in LevelSets, pc \in PayloadClasses, pt \in Points}

\* which level's value must be visible ("unset": the variable must not exist)
Visible(c) ==
  LET pipeApplies == c.point[1] = "p" /\ "pipe" \in c.levels
      taskApplies == c.point = <<"p", "t1">> /\ "task" \in c.levels
  IN IF taskApplies THEN "task" ELSE IF pipeApplies THEN "pipe" ELSE IF "proc" \in c.levels THEN "proc" ELSE "unset"

\* row: [levels (sequence), payload, point (sequence), seen: level whose value was seen | "unset" | "other", exact: bytes equal]
RowOK(r) ==
  LET c == [levels |-> {r.levels[i] : i \in 1 .. Len(r.levels)}, payload |-> r.payload, point |-> r.point] IN
  /\ c \in Cases
  /\ r.seen = Visible(c)
  /\ r.exact

\* design-level sanity: precedence is total and a task never sees a level that does not apply to it
ASSUME \A c \in Cases : Visible(c) \in (c.levels \cup {"unset"})
ASSUME \A c \in Cases : (c.point # <<"p", "t1">>) => Visible(c) # "task"
ASSUME \A c \in Cases : (c.point[1] = "q") => Visible(c) \in {"proc", "unset"}
=============================================================================

SPECIFICATION TSpec
CHECK_DEADLOCK FALSE
ALIAS Alias
INVARIANTS C14_RowAsSpecified ValidAccepted

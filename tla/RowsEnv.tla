------------------------------- MODULE RowsEnv -------------------------------
(* validates the rows recorded by the real-process probe against Env.tla *)
EXTENDS Env, Json
Rows == ndJsonDeserialize("env_rows.ndjson")
Extra == ndJsonDeserialize("env_extra_rows.ndjson")
VARIABLES kind, l
Init == kind \in {"env", "extra"} /\ l = 1
Next == l < (IF kind = "env" THEN Len(Rows) ELSE Len(Extra)) /\ l' = l + 1 /\ UNCHANGED kind
Spec == Init /\ [][Next]_<<kind, l>>
C18_VisibleValue == (kind = "env" /\ l <= Len(Rows)) => RowOK(Rows[l])
\* extra rows: [what, ok]: template rendered with the job's own variables; reserved variable name refused;
\* nothing of another job visible
C18_JobIsolation == (kind = "extra" /\ l <= Len(Extra)) => Extra[l].ok
ASSUME {[levels |-> {Rows[i].levels[k] : k \in 1 .. Len(Rows[i].levels)}, payload |-> Rows[i].payload, point |-> Rows[i].point] : i \in 1 .. Len(Rows)} = Cases
Alias == [kind |-> kind, line |-> l]
=============================================================================

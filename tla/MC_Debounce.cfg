SPECIFICATION Spec
CONSTANTS
 NP = 1
 MaxJobs = 4
 VerTable <- MCVerTable
 InitCfgs <- MCInitCfgs
 Reloads <- MCReloads
 MaxReloads = 1
 MaxTicks = 4
 BadKinds <- MCBad
 MaxOps = 5
 Features <- MCFeatures
 Gen = FALSE
CHECK_DEADLOCK FALSE
ALIAS Alias
INVARIANTS TypeOK WaitListSound WaitListComplete
 PrC01_LimitAtStart PrC01_RunLimit PrC03_NoIdleHead PrC05_Table PrC05_Bound PrC06_Fifo
 PrC07_NotBefore PrC07_NeverStartedNeverRuns PrC07_NewestWins PrC15_SchedulableIffAccepted PrC16_ReloadIsInert

------------------------------ MODULE MC_Ret ------------------------------
(* retention by count and by age, pipelines removed by a reload, saves *)
EXTENDS Prunner, Catalog
MCVerTable == <<
  MkRet(1, 2, -1, 1, 0, GSingle),     \* 1 keep 1, conc 2
  MkRet(1, 1, -1, 0, 1, GSingle)      \* 2 period 1 tick
>>
MCInitCfgs == {<<1>>, <<2>>}
MCReloads == {<<1, 0>>}
MCBad == {"none"}
MCFeatures == {"save", "persist"}
==============================================================================

SPECIFICATION Spec
CONSTANTS
 NP = 1
 MaxJobs = 1
 VerTable <- MCVerTable
 InitCfgs <- MCInitCfgs
 Reloads <- MCReloads
 MaxReloads = 1
 MaxTicks = 0
 BadKinds <- MCBad
 MaxOps = 3
 Features <- MCFeatures
 Gen = FALSE
CHECK_DEADLOCK FALSE
ALIAS Alias
INVARIANTS TypeOK WaitListSound WaitListComplete
 PrC01_LimitAtStart PrC01_RunInsideSpan PrC01_RunLimit
 PrC02_AtMostOnce PrC02_SuccessMeansAll PrC02_CyclicNeverRuns PrC02_AcyclicCompletes
 PrC04_NotStartedNeverRuns PrC04_StopDelivered PrC04_NoNewTaskAfterStop PrC04_ReportedCanceled PrC04_Results
 PrC08_FailFast PrC08_Continue PrC08_VerdictSound PrC08_NoRunningAfterCompleted
 PrC15_RunningIffExecuting PrC15_TaskOrder PrC16_SnapshotRuns PrC16_ReloadIsInert
PROPERTIES PrC02_DepsFirst PrC08_NoRunAfterFailedDep

SPECIFICATION Spec
CONSTANTS
 Savers = {1, 2}
 MaxSaves = 3
 Chunks = 2
 InPlace = FALSE
CHECK_DEADLOCK FALSE
INVARIANTS Published ReadYourSave ReturnedVisible

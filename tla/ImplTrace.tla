------------------------------ MODULE ImplTrace ------------------------------
(***************************************************************************)
(* Trace validation in the other direction: the steps recorded from the     *)
(* real runner (gated scripts: one model step per driver step, the full      *)
(* vocabulary after each) are checked by TLC against the actions of          *)
(* Prunner.tla.  Every line names the client action and its arguments; what  *)
(* is not logged - the steps of the goroutines, the order in which a pass     *)
(* visits the stages, which stage goroutine assigns the last error last,      *)
(* whether the persist loop takes a request early - is chosen by the          *)
(* specification's own actions, and the state constraint keeps only the       *)
(* branches whose view (ConfView) and reply equal what was observed.  A       *)
(* script is accepted when some branch consumes all its lines.                *)
(*                                                                           *)
(* This module is extended by a generated root module that also extends the   *)
(* configuration module (MC_x or Sim_x) the scripts were generated from.      *)
(***************************************************************************)
EXTENDS Prunner, Json

Lines == ndJsonDeserialize("impl_trace.ndjson")
VARIABLE l                     \* index of the last consumed line
tvars == <<vars, l>>

ResetIdx == {i \in 1 .. Len(Lines) : Lines[i].k = "reset"}
TInit == \E i \in ResetIdx : l = i /\ Init /\ cfgv = Lines[i].cfg

HasNext == l < Len(Lines) /\ Lines[l + 1].k = "op"

ClientStep ==
  /\ HasNext /\ Quiescent
  /\ l' = l + 1
  /\ LET e == Lines[l + 1] IN
     IF e.skip THEN UNCHANGED vars      \* the driver could not issue the step in the state the runner was in
     ELSE CASE e.op = "schedule" -> Schedule(e.p, e.bad)
            [] e.op = "cancel"   -> Cancel(IF e.j = 0 THEN Len(job) + 1 ELSE e.j)    \* (j = 0: an id the runner does not know)
            [] e.op = "poll"     -> Poll(e.j)
            [] e.op = "finish"   -> Finish(e.j, e.t, e.o)
            [] e.op = "tick"     -> Tick \/ (~NeedsTime /\ UNCHANGED vars)
            [] e.op = "reload"   -> Reload(e.p, e.v)
            [] e.op = "save"     -> Save
            [] e.op = "shutdown" -> ShutdownBegin
            [] e.op = "force"    -> ShutdownForce
            [] e.op = "longadv"  -> LongAdv \/ (~(persist.pc = "sleeping" \/ shut = "begun") /\ UNCHANGED vars)
            [] e.op = "restart"  -> Restart
            [] OTHER -> FALSE

GoroutineStep == Internal /\ UNCHANGED l

TNext == (ClientStep \/ GoroutineStep) /\ ObsNext
TSpec == TInit /\ [][TNext]_tvars

-----------------------------------------------------------------------------
(* the observed view of a line against the view of the model state *)

LE(x) == IF x = "exit" THEN "other" ELSE x
JobMatches(m, o) ==
  IF ~m.listed THEN ~o.listed
  ELSE /\ o.listed /\ m.p = o.p /\ m.ver = o.ver /\ m.started = o.started /\ m.completed = o.completed /\ m.canceled = o.canceled
       /\ m.errored = o.errored /\ LE(m.lastErr) = o.lastErr
       /\ Len(m.tasks) = Len(o.tasks)
       /\ \A t \in 1 .. Len(m.tasks) : /\ m.tasks[t].status = o.tasks[t].status /\ m.tasks[t].errored = o.tasks[t].errored
                                       /\ m.tasks[t].canceled = o.tasks[t].canceled
StoreMatches(m, o) ==
  IF ~m.present THEN ~o.present
  ELSE /\ o.present /\ m.completed = o.completed /\ m.canceled = o.canceled /\ m.started = o.started
       /\ (m.same = "*" \/ (m.same = "y") = o.same)
ViewMatches(m, o) ==
  /\ m.phase = o.phase /\ m.shut = o.shut
  /\ Len(m.cfg) = Len(o.cfg) /\ \A p \in 1 .. Len(m.cfg) : m.cfg[p].def = o.cfg[p].def /\ m.cfg[p].ver = o.cfg[p].ver
  /\ \A p \in 1 .. Len(m.pipes) : /\ m.pipes[p].listed = o.pipes[p].listed /\ m.pipes[p].schedulable = o.pipes[p].schedulable
                                  /\ m.pipes[p].running = o.pipes[p].running
  /\ Len(m.jobs) = Len(o.jobs) /\ \A j \in 1 .. Len(m.jobs) : JobMatches(m.jobs[j], o.jobs[j])
  /\ \A j \in 1 .. Len(m.open) : \A t \in 1 .. Len(m.open[j]) : m.open[j][t] = o.open[j][t]
  /\ (o.withStore => \A j \in 1 .. Len(m.store) : StoreMatches(m.store[j], o.store[j]))
  /\ \A j \in 1 .. Len(m.logs) : m.logs[j] = o.logs[j]

\* the HTTP layer (server/server.go): the status code that answers a request, from the reply of the runner
HttpCode(op, res, err) ==
  IF op = "schedule" THEN (IF res = "ok" THEN 202 ELSE IF err = "shutdown" THEN 503 ELSE 400)
  ELSE IF op = "cancel" THEN (IF res = "ok" THEN 200 ELSE IF err = "notfound" THEN 404 ELSE 500)
  ELSE 0

LineMatches(i) ==
  LET e == Lines[i] IN
  IF e.dbg THEN PrintT(<<"MODELVIEW", ToJson(ConfView(obs)), last.res, last.err, last.new>>)    \* (debugging aid: show what the model has here)
  ELSE /\ ViewMatches(ConfView(obs), e.view)
       \* (the passing of time has no reply)
       /\ (e.skip \/ e.op \in {"tick", "longadv"} \/ (last.res = e.res /\ last.err = e.err /\ last.new = e.new))
       \* a request that went through the HTTP handler was answered with the status code of the HTTP layer
       /\ ((~e.skip /\ e.via = "http") => e.http = HttpCode(last.op, last.res, last.err))

IsLastOfScript(i) == i = Len(Lines) \/ Lines[i + 1].k = "reset"

\* state constraint: at a quiescent state after a consumed line the model must look like the runner did; a branch that
\* consumed the last line of its script reports the script as explained
Consistent ==
  (Quiescent /\ Lines[l].k = "op") =>
     /\ LineMatches(l)
     /\ (IsLastOfScript(l) => PrintT(<<"ACCEPTED", Lines[l].sid>>))
\* a script without steps is explained by its initial state
AcceptEmpty == (Lines[l].k = "reset" /\ IsLastOfScript(l)) => PrintT(<<"ACCEPTED", Lines[l].sid>>)
TConstraint == Consistent /\ AcceptEmpty
TAlias == [line |-> l]
=============================================================================

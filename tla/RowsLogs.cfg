SPECIFICATION Spec
CONSTANT MaxSize = 3
CHECK_DEADLOCK FALSE
ALIAS Alias
INVARIANTS C19_CapturedExactly C19_ApiRules

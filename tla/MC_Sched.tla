------------------------------ MODULE MC_Sched ------------------------------
(* the per-job scheduler: one pipeline, one or two jobs, graph variety x fail-fast / continue, cancel at every point *)
EXTENDS Prunner, Catalog

GParAllow == << T("a", <<>>, TRUE, FALSE), T("b", <<>>, FALSE, FALSE) >>
GDepAllow == << T("x", <<>>, FALSE, FALSE), T("d", <<1>>, TRUE, FALSE), T("e", <<2>>, FALSE, FALSE) >>
MCVerTable == <<
  MkVer(1, 1, -1, FALSE, 0, FALSE, GChain, FALSE),     \* 1
  MkVer(1, 1, -1, FALSE, 0, FALSE, GPar, FALSE),       \* 2 fail-fast, parallel
  MkVer(1, 1, -1, FALSE, 0, TRUE, GPar, FALSE),        \* 3 continue, parallel
  MkVer(1, 1, -1, FALSE, 0, FALSE, GFanIn, FALSE),     \* 4
  MkVer(1, 1, -1, FALSE, 0, TRUE, GFanIn, FALSE),      \* 5
  MkVer(1, 1, -1, FALSE, 0, FALSE, GDiamond, FALSE),   \* 6
  MkVer(1, 1, -1, FALSE, 0, TRUE, GMixed, FALSE),      \* 7
  MkVer(1, 1, -1, FALSE, 0, FALSE, GAllowCh, FALSE),   \* 8
  MkVer(1, 1, -1, FALSE, 0, FALSE, GEmpty, FALSE),     \* 9
  MkVer(1, 1, -1, FALSE, 0, TRUE, GParAllow, FALSE),   \* 10
  MkVer(1, 1, -1, FALSE, 0, TRUE, GDepAllow, FALSE),   \* 11
  MkVer(1, 1, -1, FALSE, 0, FALSE, GCycle, TRUE)       \* 12
>>
MCInitCfgs == {<<v>> : v \in 1 .. 12}
MCReloads == {<<1, 1>>, <<1, 3>>}
MCBad == {"none"}
MCFeatures == {"cancel"}
==============================================================================

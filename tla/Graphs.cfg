SPECIFICATION Spec
CONSTANTS
 Pool = {"m", "c", "x", "a", "k", "b", "z", "d"}
 MaxN = 7
CHECK_DEADLOCK FALSE

SPECIFICATION Spec
CHECK_DEADLOCK FALSE
ALIAS Alias
INVARIANTS C20_NoSurvivor C20_Bounded C20_OthersUntouched

SPECIFICATION Spec
CHECK_DEADLOCK FALSE
ALIAS Alias
INVARIANTS C14_ConfiguredSecret

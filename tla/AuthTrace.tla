----------------------------- MODULE AuthTrace -----------------------------
(* validates the rows recorded from the real http.Handler (one request per row) against Auth.tla *)
EXTENDS AuthTable, Json

Rows == ndJsonDeserialize("auth_rows.ndjson")
VARIABLE l
TInit == l = 1
TNext == l < Len(Rows) /\ l' = l + 1
TSpec == TInit /\ [][TNext]_l

C14_RowAsSpecified == l <= Len(Rows) => RowOK(Rows[l])
\* sanity of the harness (not part of the property): valid credentials are accepted on registered API routes
ValidAccepted == l <= Len(Rows) => LET r == Rows[l] IN
   (r.kind = "api" /\ r.registered /\ CredValid(CredByName(r.cred))) => r.status # 401
\* every registered API route was tried with every credential class and transport, profiling on and off
Keys == {<<Rows[i].route, Rows[i].cred, Rows[i].transport, Rows[i].profiling>> : i \in 1 .. Len(Rows)}
ApiRoutes == {Rows[i].route : i \in {k \in 1 .. Len(Rows) : Rows[k].kind = "api" /\ Rows[k].registered}}
TableComplete == \A rt \in ApiRoutes : \A c \in Creds : \A tr \in Transports : \A pf \in BOOLEAN :
                        (c.present \/ tr = "header") => <<rt, c.name, tr, pf>> \in Keys
ASSUME TableComplete
Alias == [line |-> l]
=============================================================================

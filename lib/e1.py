"""Engine E1 `core`: TLC-generated scripts executed on the real PipelineRunner + taskctl.Scheduler
under a virtual clock (testing/synctest), traces monitored by TLC against Props.tla."""
import glob
import json
import os
import re
import shutil
import subprocess
import sys
import time
from concurrent.futures import ThreadPoolExecutor

from common import (CACHE, GOENV, Infra, REPO, TLA, VERIF, copy_specs, locked, log, run, scratch, seed, tlc, tlc_to_file,
                    tlc_stats, tree_key)

TICK_MS = 20

# invariants (state) and action properties of Props.tla per property id
INVS = {
    "C01": ["C01_LimitAtStart", "C01_RunInsideSpan", "C01_RunLimit"],
    "C02": ["C02_AtMostOnce", "C02_DepsFirst", "C02_SuccessMeansAll", "C02_CyclicNeverRuns", "C02_AcyclicCompletes"],
    "C03": ["C03_Drained", "C03_NoIdleHead"],
    "C04": ["C04_NotStartedNeverRuns", "C04_StopDelivered", "C04_NoNewTaskAfterStop", "C04_ReportedCanceled", "C04_Results"],
    "C05": ["C05_Table", "C05_RejectNoTrace", "C05_Bound", "C05_UndefinedRejected"],
    "C06": ["C06_Fifo"],
    "C07": ["C07_NotBefore", "C07_NeverStartedNeverRuns", "C07_NewestWins", "C07_NewestRuns"],
    "C08": ["C08_NoRunAfterFailedDep", "C08_FailFast", "C08_FailFastNoNewTask", "C08_Continue", "C08_VerdictSound",
            "C08_NoRunningAfterCompleted"],
    "C10": ["C10_AllTerminal", "C10_NoGhosts", "C10_SameSet", "C10_FinishedFaithful", "C10_NoGhostCapacity"],
    "C11": ["C11_AllTerminal", "C11_StoreMatches", "C11_RejectAfter", "C11_GracefulRunsOut", "C11_ForcedCancels", "C11_ForcedStops",
            "C11_PersistWithinInterval"],
    "C12": ["C12_KeepsUnfinished", "C12_NoSettingsNoRemoval", "C12_NewestFirstClosure", "C12_CountBound", "C12_PeriodBound",
            "C12_UndefinedPurged", "C12_ThreeViewsAgree"],
    "C15": ["C15_SchedulableIffAccepted", "C15_RunningIffExecuting", "C15_ListedFromReturn", "C15_NewestFirst",
            "C15_TimesOrdered", "C15_TaskOrder"],
    "C16": ["C16_SnapshotRuns", "C16_ReloadIsInert", "C16_AllTerminalAtDrain", "C07_NotBefore"],
}


def build_driver(dst):
    """Builds the harness test binary against the current working tree of REPO (module replace)."""
    out = os.path.join(dst, "driver.test")
    with scratch("verif-build-") as b:
        h = os.path.join(b, "harness")
        shutil.copytree(os.path.join(VERIF, "harness"), h)
        shutil.copy(os.path.join(REPO, "go.sum"), os.path.join(h, "go.sum"))
        p = run(["go1.26", "mod", "edit", "-replace", "github.com/Flowpack/prunner=" + REPO], cwd=h, env=GOENV, timeout=120)
        if p.returncode != 0:
            raise Infra("go mod edit failed:\n" + p.stdout[-2000:])
        p = run(["go1.26", "test", "-c", "-tags", "verif", "-o", out, "./driver"], cwd=h, env=GOENV, timeout=600)
        if p.returncode != 0:
            raise Infra("harness build failed (does /repo still compile?):\n" + p.stdout[-4000:])
    return out


# ---------------------------------------------------------------------------
# scripts from TLC behaviours

# a tick of the step-by-step (gated) scripts: far above the 1 ms steps, and MaxTicks of them stay below the 3 s pauses of
# the persist loop and the shutdown poll, which the model only ends by LongAdv
GATED_TICK_MS = 600


def convert_script(obj, sid, src, tick_ms=TICK_MS, gated=False):
    """TLC-printed script (model units) -> driver script (ms)."""
    np_ = obj["np"]
    vers = obj["vers"]
    for v in vers:
        v["delay"] = v["delay"] * tick_ms
        # step-by-step scripts: a retention period ends half a tick after the model's tick count, so that the few ms the
        # steps themselves take never decide whether a job has expired
        v["retPeriod"] = v["retPeriod"] * tick_ms + (tick_ms // 2 if gated and v["retPeriod"] > 0 else 0)
    init = [0] * np_
    steps = []
    for s in obj["steps"]:
        op = s["op"]
        if op == "init":
            init[s["p"] - 1] = s["v"]
        elif op == "tick":
            steps.append({"op": "adv", "ms": tick_ms})
        elif op == "schedule":
            d = {"op": "schedule", "p": s["p"]}
            if s.get("bad", "none") != "none":
                d["bad"] = s["bad"]
            steps.append(d)
        elif op == "cancel":
            steps.append({"op": "cancel", "j": s["j"]})
        elif op == "poll":
            steps.append({"op": "poll", "j": s["j"]})
        elif op == "finish":
            steps.append({"op": "finish", "j": s["j"], "t": s["t"], "o": s["o"]})
        elif op == "reload":
            steps.append({"op": "reload", "p": s["p"], "v": s["v"]})
        else:
            steps.append({"op": op})
        if op != "init":
            # the model transition this step was derived from (lib/conform.py, lib/impltrace.py)
            steps[-1]["lab"] = s.get("lab") or json.dumps({k: s.get(k, d) for k, d in
                                                         (("op", ""), ("p", 0), ("j", 0), ("t", 0), ("o", ""), ("v", 0), ("bad", "none"))}, sort_keys=True)
    steps.append({"op": "drain"})
    r = {"id": sid, "src": src, "np": np_, "vers": vers, "init": init, "steps": steps, "seed": 0, "gated": gated}
    if "root" in obj:
        r["root"] = obj["root"]
        r["graph"] = obj["graph"]
    return r


SIM_GATED_TICK_MS = 200


def gated_ok(steps, tick_ms):
    n = 0
    for s in steps:
        if s["op"] in ("longadv", "restart"):
            n = 0
        elif s["op"] == "tick":
            n += 1
            if n * tick_ms > 2400:
                return False
    return True


def via_mix(scripts, sd):
    """Alternate the API surface (direct call / HTTP handler) deterministically."""
    import random
    rnd = random.Random(sd)
    for sc in scripts:
        for st in sc["steps"]:
            if st["op"] in ("schedule", "cancel") and rnd.random() < 0.4:
                st["via"] = "http"


def simulate_scripts(work, cfgname, module, num, depth, sd, workers=4, timeout=900, tag="sim"):
    """tlc -simulate on a Sim_* config; every behaviour prints one JSON script."""
    rc, out = tlc(work, module, cfgname, workers=workers, timeout=timeout,
                  extra=["-simulate", "num=%d" % max(1, num // workers), "-depth", str(depth), "-seed", str(sd)])
    scripts = []
    for line in out.splitlines():
        if line.startswith('"{'):
            try:
                obj = json.loads(json.loads(line))
            except ValueError:
                continue
            # every second behaviour runs step by step (gated) and is validated by TLC against the specification's actions
            # (lib/impltrace.py), unless its ticks would outlast the 3 s pauses that the model only ends by LongAdv
            gated = len(scripts) % 2 == 1 and gated_ok(obj["steps"], SIM_GATED_TICK_MS)
            scripts.append(convert_script(obj, "%s-%d-%05d" % (tag, sd, len(scripts) + 1), "tlc-simulate %s seed %d" % (cfgname, sd),
                                          tick_ms=SIM_GATED_TICK_MS if gated else TICK_MS, gated=gated))
            scripts[-1]["itsrc"] = tag
    if not scripts:
        raise Infra("TLC simulation produced no scripts:\n" + out[-3000:])
    return scripts


def edge_scripts(work, module, cfg, tag, workers=4, timeout=900):
    """Every transition of a bounded model, dumped by TLC (Edges_*.tla), covered by walks of the quotient graph."""
    import planner
    # the dump goes to a file and is reduced line by line (hundreds of MB of JSON)
    dump = os.path.join(work, "edges-%s.out" % tag)
    rc = tlc_to_file(work, module, cfg, dump, workers=workers, timeout=timeout)
    with open(dump, errors="replace") as f:
        vers, edges = planner.parse_edges(f)
    if not vers or not edges:
        raise Infra("TLC edge dump produced nothing (%s):\n%s" % (cfg, open(dump, errors="replace").read()[-2000:]))
    os.remove(dump)
    plans, stats = planner.plan(vers, edges, expectations=True)
    scripts = []
    for i, pl in enumerate(plans):
        init = [{"op": "init", "p": p + 1, "v": v} for p, v in enumerate(pl["cfg"])]
        obj = {"np": len(pl["cfg"]), "vers": json.loads(json.dumps(vers)), "steps": init + pl["steps"], "root": pl["root"], "graph": tag}
        # edge-cover scripts run gated (one scheduler iteration per poll step, long ticks); every step names its model transition
        scripts.append(convert_script(obj, "%s-%05d" % (tag, i + 1), "edge cover of %s" % cfg, tick_ms=GATED_TICK_MS, gated=True))
        scripts[-1]["itsrc"] = tag
        if tag == "eburst":
            for st in scripts[-1]["steps"]:
                if st["op"] == "schedule":
                    st["nosep"] = True
    stats["config"] = cfg
    stats["scripts"] = len(scripts)
    import pickle
    with open(os.path.join(work, "graph-%s.pickle" % tag), "wb") as f:
        pickle.dump(stats.pop("graph"), f)
    return scripts, stats


def graph_scripts(work, num_acyclic, num_cyclic, sd, timeout=600):
    """Random task graphs (any DAG over up to 7 named tasks, optionally closed to a cycle) drawn by `tlc -simulate` from Graphs.tla;
    each becomes a script: two jobs of a pipeline with that graph, drained."""
    rc, out = tlc(work, "Graphs.tla", "Graphs.cfg", workers=4, timeout=timeout,
                  extra=["-simulate", "num=%d" % max(50, num_acyclic // 4), "-depth", "12", "-seed", str(sd)])
    seen, acyc, cyc = set(), [], []
    for line in out.splitlines():
        if not line.startswith('"GRAPH '):
            continue
        try:
            g = json.loads(json.loads(line)[6:])
        except ValueError:
            continue
        key = json.dumps(g, sort_keys=True)
        if key in seen:
            continue
        seen.add(key)
        (cyc if g["cyclic"] else acyc).append(g)
    if not acyc:
        raise Infra("Graphs.tla produced no graphs:\n" + out[-2000:])
    import random
    rnd = random.Random(sd)
    rnd.shuffle(cyc)
    scripts = []
    for i, g in enumerate(acyc[:num_acyclic] + cyc[:num_cyclic]):
        ver = {"p": 1, "conc": 2, "qlimit": -1, "replace": False, "delay": 0, "cont": False, "retCount": 0, "retPeriod": 0,
               "tasks": g["tasks"], "cyclic": g["cyclic"]}
        other = {"p": 2, "conc": 1, "qlimit": -1, "replace": False, "delay": 0, "cont": False, "retCount": 0, "retPeriod": 0,
                 "tasks": [{"name": "a", "deps": [], "allow": False, "empty": False}], "cyclic": False}
        steps = [{"op": "schedule", "p": 1}, {"op": "schedule", "p": 2}, {"op": "schedule", "p": 1}, {"op": "drain"}]
        scripts.append({"id": "graph-%d-%05d" % (sd, i + 1), "src": "tlc-simulate Graphs.tla seed %d" % sd, "np": 2, "vers": [ver, other],
                        "init": [1, 2], "steps": steps, "seed": 0})
    return scripts


def hand_scripts():
    out = []
    for f in sorted(glob.glob(os.path.join(VERIF, "scripts", "*.ndjson"))):
        with open(f) as fh:
            for line in fh:
                line = line.strip()
                if line and not line.startswith("#"):
                    out.append(json.loads(line))
    return out


# ---------------------------------------------------------------------------
# execution on the real code

def run_shard(driver, scripts_file, trace_file, logf):
    """Run one shard; a crash of the process (panic in the code under test, hang) is recorded and the shard
    resumes with the next script."""
    crashes = []
    skip = 0
    total = sum(1 for _ in open(scripts_file))
    while skip < total:
        env = dict(os.environ, VERIF_SCRIPTS=scripts_file, VERIF_TRACE=trace_file, VERIF_SKIP=str(skip))
        try:
            p = subprocess.run([driver, "-test.run", "TestScripts", "-test.timeout", "0"], env=env, stdout=subprocess.PIPE,
                               stderr=subprocess.STDOUT, text=True, errors="replace", timeout=1800)
        except subprocess.TimeoutExpired:
            raise Infra("driver shard timed out")
        out = p.stdout or ""
        with open(logf, "a") as lf:
            lf.write(out[-20000:])
        if "VERIF-DONE" in out and p.returncode == 0:
            break
        last = None
        for m in re.finditer(r"VERIF-SCRIPT (\d+) (\S+)", out):
            last = (int(m.group(1)), m.group(2))
        if last is None:
            raise Infra("driver died before the first script:\n" + out[-3000:])
        kind = "hang" if "VERIF-HANG" in out else "crash"
        frames = [l.strip() for l in out.splitlines() if "github.com/Flowpack/prunner" in l and "verifharness" not in l][:12]
        head = ""
        m = re.search(r"^(panic: .*|fatal error: .*)$", out, re.M)
        if m:
            head = m.group(1)
        crashes.append({"script": last[1], "kind": kind, "head": head, "frames": frames, "tail": out[-1500:]})
        skip = last[0]
    return crashes


def execute(driver, scripts, work, shards=24):
    shards = max(1, min(shards, len(scripts)))
    files = []
    for i in range(shards):
        sf = os.path.join(work, "scripts-%02d.ndjson" % i)
        with open(sf, "w") as f:
            for sc in scripts[i::shards]:
                f.write(json.dumps(sc) + "\n")
        files.append((sf, os.path.join(work, "trace-%02d.ndjson" % i), os.path.join(work, "driver-%02d.log" % i)))
    crashes = []
    with ThreadPoolExecutor(max_workers=shards) as ex:
        for res in ex.map(lambda a: run_shard(driver, *a), files):
            crashes.extend(res)
    return [f[1] for f in files if os.path.exists(f[1])], crashes


# ---------------------------------------------------------------------------
# TLC as monitor

STATE_INVS = None


def split_invs(names):
    """Props formulas of the form [][..]_pvars are PROPERTIES, the others INVARIANTS."""
    text = open(os.path.join(TLA, "Props.tla")).read()
    inv, prop = [], []
    for n in names:
        m = re.search(r"^%s ==\s*(.*)$" % re.escape(n), text, re.M)
        if m and m.group(1).lstrip().startswith("[]["):
            prop.append(n)
        else:
            inv.append(n)
    return inv, prop


def monitor_one(trace, names, work, idx):
    d = os.path.join(work, "mon-%02d" % idx)
    os.makedirs(d, exist_ok=True)
    copy_specs(d, {"Props.tla", "ObsTrace.tla"})
    os.symlink(trace, os.path.join(d, "trace.ndjson"))
    inv, prop = split_invs(names)
    with open(os.path.join(d, "Obs.cfg"), "w") as f:
        f.write('SPECIFICATION Spec\nCONSTANT TraceFile = "trace.ndjson"\nCHECK_DEADLOCK FALSE\nALIAS Alias\n')
        if inv:
            f.write("INVARIANTS\n" + "\n".join(" " + n for n in inv) + "\n")
        if prop:
            f.write("PROPERTIES\n" + "\n".join(" " + n for n in prop) + "\n")
    nlines = sum(1 for _ in open(trace))
    rc, out = tlc(d, "ObsTrace.tla", "Obs.cfg", workers=2, timeout=1200, heap="2g")
    st = tlc_stats(out)
    viol = []
    if "Model checking completed. No error has been found." in out:
        if not st or st["distinct"] != nlines:
            raise Infra("monitor consumed %s of %d trace lines" % (st, nlines))
        return viol, nlines
    m = re.search(r"Error: Invariant (\S+) is violated", out)
    m2 = re.search(r"Error: Action property (\S+) is violated", out)
    name = m.group(1) if m else (m2.group(1) if m2 else None)
    if name is None:
        raise Infra("TLC monitor failed:\n" + out[-4000:])
    # last printed state = position of the violating line
    pos = re.findall(r'/\\ sid = "([^"]*)"\n/\\ seq = (\d+)\n/\\ line = (\d+)', out)
    if not pos:
        pos = re.findall(r'sid = "([^"]*)"[\s\S]*?seq = (\d+)[\s\S]*?line = (\d+)', out)
    sid, seq, line = pos[-1] if pos else ("?", "0", "0")
    viol.append({"formula": name, "script": sid, "seq": int(seq), "line": int(line), "trace": trace})
    return viol, nlines


def monitor(traces, names, work, until_clean=True, rounds=None):
    """Check all traces; for each trace file, after a violation the offending script is cut out and the rest
    is re-checked, so that every violating script of the run is reported (bounded)."""
    allv = []
    total = 0

    def one(args):
        i, tr = args
        viols = []
        cur = tr
        n0 = 0
        # (rounds: how many violating scripts are cut out and reported per trace file - a changed tree with many violating scripts
        # must still be judged quickly; VERIF_MONITOR_ROUNDS, default 3)
        for rnd in range(max(1, min(8, rounds or int(os.environ.get("VERIF_MONITOR_ROUNDS", "3"))))):
            v, n = monitor_one(cur, names, work, i * 10 + rnd)
            if rnd == 0:
                n0 = n
            if not v:
                break
            viols.extend(v)
            bad = v[0]["script"]
            nxt = os.path.join(work, "cut-%02d-%d.ndjson" % (i, rnd))
            with open(cur) as fi, open(nxt, "w") as fo:
                for line in fi:
                    if '"sid":"%s"' % bad not in line[:80]:
                        fo.write(line)
            if os.path.getsize(nxt) == 0:
                break
            cur = nxt
        return viols, n0

    with ThreadPoolExecutor(max_workers=6) as ex:
        for v, n in ex.map(one, list(enumerate(traces))):
            allv.extend(v)
            total += n
    return allv, total


# ---------------------------------------------------------------------------
# exhaustive model checking of the design

def model_check(work, cfgs, workers=8, timeout=1500):
    res = []
    for module, cfg in cfgs:
        t0 = time.time()
        rc, out = tlc(work, module, cfg, workers=workers, timeout=timeout)
        st = tlc_stats(out)
        ok = "Model checking completed. No error has been found." in out
        res.append({"config": cfg, "ok": ok, "states": st["distinct"] if st else 0, "transitions": st["generated"] if st else 0,
                    "wall_s": round(time.time() - t0, 1), "tail": "" if ok else out[-3000:]})
    return res


# ---------------------------------------------------------------------------
# the cached engine run

TIERS = {
    "quick": {"sim": [("Sim_Core.tla", "Sim_Core.cfg", 480, 200), ("Sim_Life.tla", "Sim_Life.cfg", 320, 200)],
              "edges": [("Edges_Sched.tla", "Edges_Sched.cfg", "esched"), ("Edges_Delay.tla", "Edges_Delay.cfg", "edelay"),
                        ("Edges_Queue.tla", "Edges_Queue.cfg", "equeue"), ("Edges_Debounce.tla", "Edges_Debounce.cfg", "edebounce"),
                        ("Edges_Shut.tla", "Edges_Shut.cfg", "eshut"), ("Edges_Rest.tla", "Edges_Rest.cfg", "erest"),
                        ("Edges_Ret.tla", "Edges_Ret.cfg", "eret"), ("Edges_Burst.tla", "Edges_Burst.cfg", "eburst")],
              "mc": [("MC_Core.tla", "MC_Core.cfg"), ("MC_Sched.tla", "MC_Sched.cfg"), ("MC_Delay.tla", "MC_Delay.cfg"), ("MC_Delay.tla", "MC_Live.cfg"),
                     ("MC_Queue.tla", "MC_Queue.cfg"), ("MC_Debounce.tla", "MC_Debounce.cfg"), ("MC_Shut.tla", "MC_Shut.cfg"), ("MC_Rest.tla", "MC_Rest.cfg"), ("MC_Ret.tla", "MC_Ret.cfg"), ("MC_Burst.tla", "MC_Burst.cfg")]},
    "thorough": {"sim": [("Sim_Core.tla", "Sim_Core.cfg", 6000, 300), ("Sim_Life.tla", "Sim_Life.cfg", 4000, 300)],
                 "edges": [("Edges_Sched.tla", "Edges_Sched.cfg", "esched"), ("Edges_Delay.tla", "Edges_Delay.cfg", "edelay"),
                           ("Edges_Queue.tla", "Edges_Queue.cfg", "equeue"), ("Edges_Debounce.tla", "Edges_Debounce.cfg", "edebounce"),
                           ("Edges_Shut.tla", "Edges_Shut.cfg", "eshut"), ("Edges_Rest.tla", "Edges_Rest.cfg", "erest"), ("Edges_Ret.tla", "Edges_Ret.cfg", "eret"),
                           ("Edges_Burst.tla", "Edges_Burst.cfg", "eburst"), ("Edges_Core.tla", "Edges_Core.cfg", "ecore")],
                 "mc": [("MC_Core.tla", "MC_Core.cfg"), ("MC_Sched.tla", "MC_Sched.cfg"), ("MC_Delay.tla", "MC_Delay.cfg"), ("MC_Delay.tla", "MC_Live.cfg"),
                        ("MC_Queue.tla", "MC_Queue.cfg"), ("MC_Debounce.tla", "MC_Debounce.cfg"), ("MC_Shut.tla", "MC_Shut.cfg"), ("MC_Rest.tla", "MC_Rest.cfg"),
                        ("MC_Ret.tla", "MC_Ret.cfg"), ("MC_Burst.tla", "MC_Burst.cfg"), ("MC_Core.tla", "MC_Core3.cfg"), ("MC_Life.tla", "MC_Life.cfg")]},
}


def engine(tier):
    """Returns the directory with the engine results for (tree, tier, seed); runs the engine if needed."""
    key = tree_key("e1", tier, seed())
    d = os.path.join(CACHE, "e1-" + key)
    with locked(os.path.join(CACHE, "e1-" + key + ".lock")):
        if os.path.exists(os.path.join(d, "result.json")):
            return d
        if os.path.exists(d):
            shutil.rmtree(d)
        os.makedirs(d)
        t0 = time.time()
        driver = build_driver(d)
        with scratch("verif-e1-") as work:
            copy_specs(work)
            scripts = hand_scripts()
            edge_stats = []
            # the TLC runs that generate scripts, and the exhaustive model checks, run side by side
            pool = ThreadPoolExecutor(max_workers=6)
            gen_jobs = []
            it_sources = {}
            for module, cfg, tag in TIERS[tier].get("edges", []):
                it_sources[tag] = (module.replace("Edges_", "MC_"), cfg.replace("Edges_", "MC_"))
            for module, cfg, num, depth in TIERS[tier]["sim"]:
                it_sources[cfg[4:-4].lower()] = (module, cfg)
            for module, cfg, tag in TIERS[tier].get("edges", []):
                if os.path.exists(os.path.join(work, cfg)):
                    gen_jobs.append(("edge", pool.submit(edge_scripts, work, module, cfg, tag)))
            for module, cfg, num, depth in TIERS[tier]["sim"]:
                if os.path.exists(os.path.join(work, cfg)):
                    gen_jobs.append(("sim", pool.submit(simulate_scripts, work, cfg, module, num, depth, seed(), 4, 900, cfg[4:-4].lower())))
            ga, gc = (400, 120) if tier == "quick" else (4000, 1000)
            if os.path.exists(os.path.join(work, "Graphs.cfg")):
                gen_jobs.append(("sim", pool.submit(graph_scripts, work, ga, gc, seed())))
            mc_future = pool.submit(model_check, work, [(m, c) for m, c in TIERS[tier]["mc"] if os.path.exists(os.path.join(work, c))], 4)
            for kind, fut in gen_jobs:
                if kind == "edge":
                    es, stt = fut.result()
                    scripts += es
                    edge_stats.append(stt)
                else:
                    scripts += fut.result()
            for i, sc in enumerate(scripts):
                sc["seed"] = seed() * 1000 + i
                # a third of the life-cycle scripts run on a slow data store (saves in flight); explicit saves racing with the
                # persist loop are not part of those scripts
                if sc["id"].startswith("life-") and i % 3 == 0 and not sc.get("gated"):
                    sc["slow"] = True
                    sc["steps"] = [s for s in sc["steps"] if s["op"] != "save"]
            via_mix(scripts, seed())
            t1 = time.time()
            traces, crashes = execute(driver, scripts, d)
            # strict conformance of the gated scripts with the model they were derived from (diagnostic): the edge covers
            # against the TLC-dumped transition graph (lib/conform.py), all gated scripts by TLC itself (lib/impltrace.py)
            import conform
            import impltrace
            ops = conform.op_lines(traces, {s["id"] for s in scripts if s.get("gated") and s.get("itsrc")})
            conf = conform.validate(work, scripts, ops)
            for dr in conf["drift"][:20]:
                sys.stderr.write("CONFORM-DRIFT %s\n" % json.dumps(dr))
            conf["drift_count"] = len(conf["drift"])
            conf["drift"] = conf["drift"][:20]
            it_jobs = []
            it_pool = ThreadPoolExecutor(max_workers=3)      # (memory: at most three of these JVMs next to the monitors)
            for tag, (module, cfg) in it_sources.items():
                mine = [s for s in scripts if s.get("gated") and s.get("itsrc") == tag and not s.get("slow")]
                if mine and os.path.exists(os.path.join(work, cfg)):
                    feats = re.search(r"(?:MC|Sim)Features == \{([^}]*)\}", open(os.path.join(work, module)).read())
                    with_store = bool(feats and '"persist"' in feats.group(1))
                    it_jobs.append((tag, it_pool.submit(impltrace.validate, work, tag, module, cfg, mine, ops, with_store, 3)))
            t2 = time.time()
            # one monitor pass with every formula: on a tree where everything holds the per-property checks need no further TLC run
            allnames = sorted({n for v in INVS.values() for n in v})
            # (one round: this pass only has to tell whether - and which - formulas fail; the per-property checks report the scripts)
            first, nlines = monitor(traces, allnames, work, rounds=1)
            failing = sorted({v["formula"] for v in first})
            t2b = time.time()
            mc = mc_future.result()
            tlc_validation = []
            for tag, fut in it_jobs:
                r = fut.result()
                r["source"] = tag
                tlc_validation.append(r)
                for sid in r["rejected"][:5]:
                    sys.stderr.write("CONFORM-REJECTED %s: no behaviour of Prunner.tla explains the recorded steps of script %s\n" % (tag, sid))
            conf["tlc_trace_validation"] = tlc_validation
            it_pool.shutdown()
            pool.shutdown()
        with open(os.path.join(d, "scripts.ndjson"), "w") as f:
            for sc in scripts:
                f.write(json.dumps(sc) + "\n")
        steps = sum(len(s["steps"]) for s in scripts)
        res = {"tier": tier, "seed": seed(), "scripts": len(scripts), "steps": steps, "traces": traces, "crashes": crashes,
               "mc": mc, "edge_cover": edge_stats, "conformance": conf, "all_clean": not first, "first_pass_failing": failing,
               "trace_lines": nlines, "t_monitor": round(t2b - t2, 1), "t_gen": round(t1 - t0, 1), "t_exec": round(t2 - t1, 1), "t_mc": round(time.time() - t2b, 1)}
        with open(os.path.join(d, "result.json"), "w") as f:
            json.dump(res, f, indent=1)
        # keep the cache small: only the newest few engine results
        olds = sorted(glob.glob(os.path.join(CACHE, "e1-*/")), key=os.path.getmtime)
        for o in olds[:-6]:
            shutil.rmtree(o, ignore_errors=True)
    return d

"""TLC-native trace validation (tla/ImplTrace.tla): the steps recorded from the real runner while a gated script ran are
checked by TLC against the actions of Prunner.tla - every line names the client action and its arguments, everything that
is not logged is chosen by the specification, the state constraint keeps the branches whose view and reply equal what
was observed, a script is accepted when some branch consumes all its lines.

The scripts of one source (edge cover of a configuration, or the simulation of one) are validated in one TLC run; the
root module IT_<tag>.tla extends the configuration's own module (for its version table) and ImplTrace."""
import json
import os
import re

import planner
from common import tlc

BIG = {"MaxJobs": 60, "MaxOps": 9999, "MaxTicks": 9999, "MaxReloads": 999}


def lines_of(scripts, op_lines_by_sid, with_store):
    """-> (list of ndjson records, {int sid: script id})"""
    out, names = [], {}
    n = 0
    for sc in scripts:
        steps = [s for s in sc["steps"] if s["op"] != "drain"]
        ops = op_lines_by_sid.get(sc["id"], [])
        if len(ops) < len(steps) or any("lab" not in s for s in steps):
            continue
        n += 1
        names[n] = sc["id"]
        out.append({"k": "reset", "sid": n, "cfg": sc["init"]})
        for s, ov in zip(steps, ops):
            m = json.loads(s["lab"])
            view = {k: ov[k] for k in ("phase", "shut", "cfg", "pipes", "jobs", "open", "store", "logs")}
            view["withStore"] = with_store
            out.append({"k": "op", "sid": n, "op": m["op"], "p": m["p"], "j": m["j"], "t": m["t"], "o": m["o"], "v": m["v"], "bad": m["bad"],
                        "skip": ov["skip"], "dbg": False, "res": ov["res"], "err": ov["err"], "new": ov["new"],
                        "via": ov.get("via", ""), "http": ov.get("http", 0), "view": view})
    return out, names


def root_module(work, tag, module, cfg):
    """IT_<tag>.tla / .cfg from the configuration the scripts were generated from (module.tla + cfg)."""
    base = module[:-4] if module.endswith(".tla") else module
    name = "IT_" + tag
    with open(os.path.join(work, name + ".tla"), "w") as f:
        f.write("---- MODULE %s ----\nEXTENDS %s, ImplTrace\n====\n" % (name, base))
    consts = []
    for line in open(os.path.join(work, cfg)):
        m = re.match(r"^\s+(\w+)\s*(=|<-)\s*(.+?)\s*$", line)
        if not m:
            continue
        k, op, val = m.groups()
        if k in BIG:
            val, op = str(BIG[k]), "="
        if k == "Gen":
            val = "FALSE"
        consts.append(" %s %s %s" % (k, op, val))
    with open(os.path.join(work, name + ".cfg"), "w") as f:
        f.write("SPECIFICATION TSpec\nCONSTANTS\n%s\nCONSTRAINT TConstraint\nCHECK_DEADLOCK FALSE\n" % "\n".join(consts))
    return name


def validate(work, tag, module, cfg, scripts, op_lines_by_sid, with_store, workers=4, timeout=1500):
    """Returns {"scripts": n, "accepted": n, "rejected": [script ids], "states": n}; raises on TLC trouble."""
    lines, names = lines_of(scripts, op_lines_by_sid, with_store)
    if not lines:
        return {"scripts": 0, "accepted": 0, "rejected": [], "states": 0}
    sub = os.path.join(work, "it-" + tag)
    os.makedirs(sub, exist_ok=True)
    for fn in os.listdir(work):
        if fn.endswith((".tla", ".cfg")) and os.path.isfile(os.path.join(work, fn)):
            with open(os.path.join(work, fn)) as src, open(os.path.join(sub, fn), "w") as dst:
                dst.write(src.read())
    with open(os.path.join(sub, "impl_trace.ndjson"), "w") as f:
        for r in lines:
            f.write(json.dumps(r) + "\n")
    name = root_module(sub, tag, module, cfg)
    rc, out = tlc(sub, name + ".tla", name + ".cfg", workers=workers, timeout=timeout, heap="3g")
    if "Model checking completed" not in out:
        from common import Infra
        raise Infra("TLC trace validation (%s) failed:\n%s" % (tag, out[-3000:]))
    acc = {int(x) for x in re.findall(r'<<"ACCEPTED", (\d+)>>', out)}
    m = re.search(r"states generated, (\d+) distinct states found", out)
    rejected = [names[i] for i in sorted(names) if i not in acc]
    return {"scripts": len(names), "accepted": len(names) - len(rejected), "rejected": rejected[:30], "rejected_count": len(rejected),
            "states": int(m.group(1)) if m else 0}

"""Engine E4 `store` (C09): syscall traces of the real JsonDataStore.Save validated by TLC against StoreTrace.tla
(concrete form of Store.tla's Published invariant), and a real SIGKILL before every syscall of the save window
followed by a Load in a fresh process."""
import json
import os
import re
import shutil
import subprocess
import time
from concurrent.futures import ThreadPoolExecutor

from common import GOENV, Infra, REPO, VERIF, copy_specs, log, run, scratch, seed, tlc, tlc_stats, write_evidence
from domain import clean_replays, last_alias_state, tlc_violation, write_replay

SYSCALLS = "openat,write,close,rename,renameat,renameat2,unlink,unlinkat,ftruncate,fsync,fdatasync"
INJECT = "openat,write,close,rename,renameat,renameat2"


def build_bin(dst):
    out = os.path.join(dst, "storeprobe")
    with scratch("verif-build-") as b:
        h = os.path.join(b, "harness")
        shutil.copytree(os.path.join(VERIF, "harness"), h)
        shutil.copy(os.path.join(REPO, "go.sum"), os.path.join(h, "go.sum"))
        p = run(["go1.26", "mod", "edit", "-replace", "github.com/Flowpack/prunner=" + REPO], cwd=h, env=GOENV, timeout=120)
        p = run(["go1.26", "build", "-tags", "verif", "-o", out, "./storeprobe"], cwd=h, env=GOENV, timeout=600)
        if p.returncode != 0:
            raise Infra("storeprobe build failed:\n" + p.stdout[-3000:])
    return out


LINE = re.compile(r"^(\d+)\s+(\w+)\((.*)\)\s+=\s+(-?\d+|\?)(.*)$")


def parse_strace(path, datadir):
    """strace -f output -> events (only calls that touch datadir, plus the probe's markers); returns (events, calls)
    where calls is the list of (pid, syscall, completed) of the main thread for the kill accounting."""
    fds = {}       # fd -> name
    names = {}     # name -> inode index
    nino = 0
    events = []
    calls = []
    main = None
    pending = {}
    lines = []
    for raw in open(path, errors="replace"):
        raw = raw.rstrip("\n")
        u = re.match(r"^(\d+)\s+(\w+)\((.*) <unfinished \.\.\.>$", raw)
        if u:
            pending[u.group(1)] = (u.group(2), u.group(3), len(lines))
            lines.append(raw)
            continue
        r = re.match(r"^(\d+)\s+<\.\.\. (\w+) resumed>(.*)$", raw)
        if r and r.group(1) in pending and pending[r.group(1)][0] == r.group(2):
            sc0, args0, pos = pending.pop(r.group(1))
            # the call takes effect when it returns: put the joined line here
            lines[pos] = ""
            lines.append("%s %s(%s%s" % (r.group(1), sc0, args0, r.group(3)))
            continue
        lines.append(raw)
    for raw in lines:
        if not raw:
            continue
        m = LINE.match(raw)
        if not m:
            if "+++ killed" in raw or "<unfinished" in raw:
                mm = re.match(r"^(\d+)\s+(\w+)\(", raw)
                if mm and main is not None and int(mm.group(1)) == main:
                    calls.append((main, mm.group(2), False))
            continue
        pid, sc, args, ret, rest = int(m.group(1)), m.group(2), m.group(3), m.group(4), m.group(5)
        if main is None:
            main = pid
        done = ret != "?"
        if pid == main and sc in INJECT.split(","):
            calls.append((pid, sc, done))
        if not done:
            continue
        ev = {"k": "", "pid": pid, "name": "", "to": "", "n": 0, "excl": False, "trunc": False, "ino": 0, "gen": 0, "phase": "",
              "bad": False, "err": False, "par": False, "text": ""}
        if sc == "openat":
            mm = re.match(r'AT_FDCWD, "([^"]*)", ([A-Z_|0-9]+)', args)
            if not mm or int(ret) < 0:
                continue
            p, flags = mm.group(1), mm.group(2)
            if os.path.dirname(p) != datadir:
                continue
            name = os.path.basename(p)
            if "O_CREAT" in flags or "O_TRUNC" in flags or "O_WRONLY" in flags or "O_RDWR" in flags:
                if name not in names:
                    nino += 1
                    names[name] = nino
                fds[int(ret)] = name
                ev.update(k="create", name=name, excl="O_EXCL" in flags, trunc="O_TRUNC" in flags, ino=names[name])
                events.append(ev)
        elif sc == "write":
            mm = re.match(r"(\d+), (\".*\")(\.\.\.)?, (\d+)$", args)
            if not mm:
                continue
            fd = int(mm.group(1))
            if fd == 2:
                try:
                    text = json.loads(mm.group(2))
                except ValueError:
                    text = mm.group(2)
                text = text.strip()
                g = re.match(r"(SAVE|PAR)-(BEGIN|END) (\d+)(.*)", text)
                if g:
                    ev.update(k="mark", text=text, gen=int(g.group(3)), phase=g.group(2).lower(), par=g.group(1) == "PAR",
                              bad="bad" in g.group(4), err="err=true" in g.group(4))
                    events.append(ev)
                continue
            if fd in fds and int(ret) > 0:
                ev.update(k="write", name=fds[fd], n=int(ret), ino=names.get(fds[fd], 0))
                events.append(ev)
        elif sc == "close":
            fd = int(args) if args.isdigit() else -1
            if fd in fds:
                ev.update(k="close", name=fds[fd], ino=names.get(fds[fd], 0))
                events.append(ev)
                del fds[fd]
        elif sc in ("rename", "renameat", "renameat2"):
            ps = re.findall(r'"([^"]*)"', args)
            if len(ps) == 2 and int(ret) == 0 and os.path.dirname(ps[1]) == datadir:
                a, b = os.path.basename(ps[0]), os.path.basename(ps[1])
                ev.update(k="rename", name=a, to=b, ino=names.get(a, 0))
                if a in names:
                    names[b] = names.pop(a)
                events.append(ev)
        elif sc in ("unlink", "unlinkat"):
            ps = re.findall(r'"([^"]*)"', args)
            if ps and int(ret) == 0 and os.path.dirname(ps[0]) == datadir:
                a = os.path.basename(ps[0])
                ev.update(k="unlink", name=a, ino=names.pop(a, 0))
                events.append(ev)
        elif sc == "ftruncate":
            fd = int(args.split(",")[0])
            if fd in fds:
                ev.update(k="ftruncate", name=fds[fd], ino=names.get(fds[fd], 0))
                events.append(ev)
    return events, calls


def strace_save(probe, work, tag, plan, inject=None):
    d = os.path.join(work, "data-" + tag)
    out = os.path.join(work, "strace-" + tag + ".txt")
    cmd = ["strace", "-f", "-s", "96", "-e", "trace=" + SYSCALLS, "-o", out]
    if inject:
        cmd += ["-e", "inject=%s:signal=SIGKILL:when=%d" % (INJECT, inject)]
    cmd += [probe, "save", d, plan]
    p = subprocess.run(cmd, stdout=subprocess.PIPE, stderr=subprocess.PIPE, text=True, errors="replace", timeout=120,
                       env=dict(os.environ, GOMAXPROCS="4" if "par" in plan else "1"))
    return d, out, p


def load(probe, d):
    p = subprocess.run([probe, "load", d], stdout=subprocess.PIPE, stderr=subprocess.STDOUT, text=True, timeout=60)
    return p.stdout.strip()


def digest_of(probe, gen, n):
    p = subprocess.run([probe, "digest", str(gen), str(n)], stdout=subprocess.PIPE, text=True, timeout=60)
    return p.stdout.strip()


def c09(pid, tier, replay):
    t0 = time.time()
    clean_replays(pid)
    sd = seed()
    with scratch("verif-c09-") as work:
        copy_specs(work, {"Store.tla", "Store.cfg", "StoreInPlace.cfg", "StoreTrace.tla", "StoreTrace.cfg"})
        # 1. design level: the protocol holds with crashes everywhere; the in-place negative control does not
        rc, out = tlc(work, "Store.tla", "Store.cfg", workers=4, timeout=600)
        st = tlc_stats(out)
        if "No error has been found" not in out:
            raise Infra("Store.tla check failed:\n" + out[-2000:])
        rc, out2 = tlc(work, "Store.tla", "StoreInPlace.cfg", workers=2, timeout=300)
        if "Invariant Published is violated" not in out2:
            raise Infra("negative control (in-place write) was not rejected by TLC")
        probe = build_bin(work)
        # 2. code -> spec: reference traces
        sizes = [0, 1, 5 + sd % 3, 40] if tier == "quick" else [0, 1, 5 + sd % 3, 40, 300, 3]
        seq_plan = ",".join(str(n) for n in sizes)
        plans = {"seq": seq_plan, "mixed": "2,nan,%d,nan,0" % (3 + sd % 4), "par": "1,par:3:%d,2" % (20 + sd % 7)}
        all_events = []
        ref_calls = None
        for tag, plan in plans.items():
            d, tr, p = strace_save(probe, work, tag, plan)
            if "DONE" not in p.stderr:
                raise Infra("storeprobe did not finish (%s): %s" % (tag, p.stderr[-500:]))
            ev, calls = parse_strace(tr, d)
            if not any(e["k"] == "rename" for e in ev):
                raise Infra("no rename seen in the syscall trace of plan %s - parser or tracing problem" % tag)
            for e in ev:
                e["trace"] = tag
            # a reset between traces: new directory
            all_events.append({"k": "reset", "pid": 0, "name": "", "to": "", "n": 0, "excl": False, "trunc": False, "ino": 0, "gen": 0,
                               "phase": "", "bad": False, "err": False, "par": False, "text": tag, "trace": tag})
            all_events += ev
            if tag == "seq":
                ref_calls = calls
                # the final state must load as the last snapshot
                got = load(probe, d)
                want = "LOADED %s %d" % (digest_of(probe, len(sizes), sizes[-1]), sizes[-1])
                if got != want:
                    all_events.append(dict(all_events[-1], k="finalload-mismatch", text=got + " != " + want))
        # 3. spec -> code: kill before every syscall of the save window, then Load in a fresh process
        first = next(i for i, c in enumerate(ref_calls) if c[1] == "write")  # not exact; refined below
        digests = {0: "empty"}
        for g, n in enumerate(sizes, 1):
            digests[g] = digest_of(probe, g, n)
        total = len(ref_calls)
        idxs = list(range(1, total + 2))
        if tier == "quick" and len(idxs) > 260:
            import random
            rnd = random.Random(sd)
            keep = set(idxs[:40] + idxs[-60:]) | set(rnd.sample(idxs, 160))
            idxs = sorted(keep)

        def kill_run(i):
            d, tr, p = strace_save(probe, work, "k%04d" % i, seq_plan, inject=i)
            ev, calls = parse_strace(tr, d)
            killed = "DONE" not in p.stderr
            gens = [e for e in ev if e["k"] == "rename" and e["to"] == "data.json"]
            # generation of each completed rename = number of SAVE-BEGIN markers seen before it
            gen = 0
            last_gen = 0
            pending = None
            for e in ev:
                if e["k"] == "mark" and e["phase"] == "begin":
                    gen = e["gen"]
                if e["k"] == "rename" and e["to"] == "data.json":
                    last_gen = gen
            # was the killed call itself a rename (it may or may not have been performed)?
            alt = None
            if killed and calls and not calls[-1][2] and calls[-1][1].startswith("rename"):
                alt = gen
            got = load(probe, d)
            shutil.rmtree(d, ignore_errors=True)
            os.unlink(tr)
            return {"i": i, "killed": killed, "last_gen": last_gen, "alt": alt, "got": got}

        with ThreadPoolExecutor(max_workers=12) as ex:
            kills = list(ex.map(kill_run, idxs))
        kill_rows = []
        for k in kills:
            def exp(g):
                return "LOADED %s %d" % (digests[g], sizes[g - 1]) if g > 0 else "LOADED %s 0" % digest_of_empty(probe)
            expect = exp(k["last_gen"])
            if k["alt"] and k["got"] == exp(k["alt"]):
                expect = k["got"]
            kill_rows.append({"i": k["i"], "killed": k["killed"], "expect": expect, "got": k["got"], "gen": k["last_gen"]})
        nk = sum(1 for k in kills if k["killed"])
        if nk < min(20, len(idxs) // 3):
            raise Infra("kill injection did not take effect (%d of %d runs were killed)" % (nk, len(idxs)))
        ev_file = os.path.join(work, "store_events.ndjson")
        with open(ev_file, "w") as f:
            for e in all_events:
                f.write(json.dumps(e) + "\n")
        kr_file = os.path.join(work, "store_kill_rows.ndjson")
        with open(kr_file, "w") as f:
            for r in kill_rows:
                f.write(json.dumps(r) + "\n")
        viols = []
        for rnd in range(10):
            rc, out = tlc(work, "StoreTrace.tla", "StoreTrace.cfg", workers=2, timeout=600)
            if "No error has been found" in out:
                break
            name = tlc_violation(out)
            if not name:
                raise Infra("TLC trace validation failed:\n" + out[-3000:])
            stt = last_alias_state(out)
            mode, line = stt.get("mode", '"trace"').strip('"'), int(stt.get("line", "1"))
            if mode == "kill":
                rows = open(kr_file).read().splitlines()
                bad = json.loads(rows[line - 1])
                viols.append({"formula": name, "what": "kill", "row": bad})
                del rows[line - 1]
                open(kr_file, "w").write("\n".join(rows) + "\n")
            else:
                evs = [json.loads(x) for x in open(ev_file)]
                bad = evs[line - 1]
                viols.append({"formula": name, "what": "trace", "event": bad, "context": evs[max(0, line - 6):line]})
                # drop the whole trace this event belongs to
                keep = [e for e in evs if e.get("trace") != bad.get("trace")]
                open(ev_file, "w").write("".join(json.dumps(e) + "\n" for e in keep))
                if not keep:
                    open(ev_file, "w").write(json.dumps(dict(evs[0], k="reset")) + "\n")
        for e in all_events:
            if e["k"] == "finalload-mismatch":
                viols.append({"formula": "C09_ReturnedIsCurrent", "what": "final", "event": e})
    reported = []
    for v in viols:
        if v["what"] == "kill":
            desc = "formula=%s killed-before-syscall=%d expect=%s got=%s" % (v["formula"], v["row"]["i"], v["row"]["expect"], v["row"]["got"])
        else:
            desc = "formula=%s trace=%s event=%s" % (v["formula"], v["event"].get("trace"), json.dumps({k: v["event"][k] for k in ("k", "name", "to", "text")}))
        path = write_replay(pid, len(reported) + 1, dict(v, property=pid, engine="store", desc=desc, plans=plans))
        reported.append((v, path, desc))
    cov = {"states": st["distinct"] if st else 1, "transitions": st["generated"] if st else 1,
           "traces_validated_against_impl": len(plans) + len(kill_rows),
           "samples": [{"plan": plans["seq"], "syscalls_in_main_thread": total}, kill_rows[len(kill_rows) // 2]],
           "evaluations": len(kill_rows) + len(all_events), "distinct_nontrivial": len({(k["gen"], k["got"]) for k in kill_rows}) + len(plans),
           "rule": "one case per syscall index of the save window: the process is killed before that call and a fresh process loads the store; "
                   "plus one validated syscall trace per plan (sequential, failing encoder, two concurrent savers)",
           "kill_points": len(kill_rows), "kill_points_total": total + 1, "killed_runs": nk, "exhaustive": len(idxs) == total + 1,
           "snapshot_sizes": sizes, "trace_events": len(all_events), "negative_control": "in-place write rejected by TLC (Published)",
           "explanation": "Store.tla (temp file + rename, two savers, crash in every state) is model-checked; the real Save is traced with strace and "
                          "validated by TLC against the concrete Published invariant after every syscall; every syscall boundary is also hit by a real SIGKILL"}
    write_evidence(pid, tier, "model_checking", cov, time.time() - t0, violations=len(reported),
                   assumptions=["crash = process kill (not power loss; Save does not fsync)", "directory changes only at syscalls (strace granularity)"])
    from checks import known_match
    rc = 0
    for v, path, desc in reported[:6]:
        k = known_match(pid, desc)
        if k:
            print("KNOWN-FINDING: property=%s %s" % (pid, k.get("description", desc)))
            continue
        print("VIOLATION property=%s replay=%s" % (pid, path))
        log("  " + desc[:300])
        rc = 1
    return rc


_EMPTY = {}


def digest_of_empty(probe):
    if "d" not in _EMPTY:
        with scratch("verif-c09e-") as d:
            out = subprocess.run([probe, "load", os.path.join(d, "none")], stdout=subprocess.PIPE, text=True, timeout=60).stdout.strip()
        _EMPTY["d"] = out.split()[1] if out.startswith("LOADED") else "?"
    return _EMPTY["d"]

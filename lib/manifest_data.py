"""Single source for MANIFEST.json (bin/gen-manifest)."""
import os

VERIF = os.path.dirname(os.path.dirname(os.path.abspath(__file__)))

SETUP = "bin/setup"

HOOKS = {
    "guard": "verif",
    "enable": "harness is built with `go1.26 test -c -tags verif` against /repo's working tree (module replace => /repo)",
    "baseline_off_cmd": "cd /repo && go test -mod=mod -vet=off -count=1 -timeout 25m ./...",
    "source_commits": ["9a44b60", "1e6abcd", "c76d199", "90f19ed", "2f6c263"],
    "add_only": True,
}

ENGINES = [
    {"name": "conc", "path": "lib/domain.py (conc_engine, c13) + harness/concprobe + tla/{LockDiscipline,RowsLock}.tla",
     "serves_properties": ["C13", "C01", "C05", "C06", "C07", "C08", "C11", "C16"],
     "kind_free_text": "concurrent seeded clients against one runner (Shutdown overlapping the clients in every second round), -race build, "
                       "lock-mode probe hooks that also give the order of the critical sections; rows validated by TLC; besides C13 it attaches "
                       "interleaving-independent facts to C01 C05 C06 C07 C08 C11 C16"},
    {"name": "realproc", "path": "lib/domain.py (c18, c19, c20) + harness/realprobe + tla/{Env,Logs,Procs,Rows*}.tla", "serves_properties": ["C18", "C19", "C20"],
     "kind_free_text": "real PipelineRunner + real TaskRunner + /bin/sh children; cases from TLC-enumerated specs; rows validated by TLC"},
    {"name": "exec", "path": "lib/domain.py (exec_engine) + harness/realprobe (TestExec) + tla/{TaskExec,RowsExec}.tla", "serves_properties": ["C04", "C08"],
     "kind_free_text": "TLC-checked case spec of the real task runner's execute loop (line outcomes, allow_failure, cancel, dependent task); "
                       "every case run with real processes; rows validated by TLC"},
    {"name": "binary", "path": "lib/binary_engine.py + tla/{App,RowsBin}.tla", "serves_properties": ["C08", "C10", "C11", "C14", "C16", "C17", "C18", "C20"],
     "kind_free_text": "the real prunner binary built from /repo under SIGINT / SIGTERM / SIGUSR1 / restart and single-field reloads; "
                       "facts validated by TLC against the scenario table; App.tla model-checked"},
    {"name": "store", "path": "lib/store_engine.py + harness/storeprobe + tla/{Store,StoreTrace}.tla", "serves_properties": ["C09"],
     "kind_free_text": "TLC-checked crash model of the save protocol; strace traces validated by TLC; real SIGKILL at every syscall boundary"},
    {"name": "auth", "path": "lib/domain.py (c14) + harness/authprobe + tla/{AuthTable,Auth,AuthTrace}.tla", "serves_properties": ["C14"],
     "kind_free_text": "TLC-checked request-path model; real handler probed with the full table; rows validated by TLC"},
    {"name": "defs", "path": "lib/domain.py (c17) + harness/defsprobe + tla/{Defs,DefsGen,DefsTrace}.tla", "serves_properties": ["C17"],
     "kind_free_text": "TLC enumerates definition cases; real loader / Equals probed; rows validated by TLC"},
    {"name": "e1-core", "path": "lib/{e1,planner,conform,impltrace}.py + harness/driver + tla/{Props,Prunner,ObsTrace,ImplTrace,MC_*,Edges_*,Sim_*}.tla",
     "serves_properties": ["C01", "C02", "C03", "C04", "C05", "C06", "C07", "C08", "C10", "C11", "C12", "C15", "C16"],
     "kind_free_text": "TLC model checking of Prunner.tla against Props.tla; TLC-simulated behaviours replayed as scripts on the real "
                       "PipelineRunner + taskctl.Scheduler under testing/synctest virtual time; recorded ndjson traces monitored by TLC "
                       "(ObsTrace.tla EXTENDS Props); the gated scripts (edge covers of eight configurations, every second simulated "
                       "behaviour) are additionally validated step by step against the specification itself - by TLC on the actions of "
                       "Prunner.tla (ImplTrace.tla) and on the dumped transition graph (conform.py) - which is reported as a diagnostic "
                       "(evidence.coverage.conformance), never as a verdict"},
]

E1_NOTE = ("Trusted: TLC, Go's testing/synctest, the harness' fake task runner (follows the Run/Cancel contract of taskctl.TaskRunner) and "
           "its observation code (the fake's contract is itself specified and checked against the real task runner: TaskExec.tla). Client "
           "operations are issued at quiescent instants of the virtual clock; bounded model constants "
           "(see evidence.model_configs); scripts are a seeded sample of the model's behaviours, not all of them.")

E1_TECH = "TLA+ spec (Prunner.tla) model-checked with TLC against Props.tla; TLC-generated behaviours replayed on the real code; recorded traces validated by TLC against the same Props formulas"


def e1(text, ref):
    return {"engine": "e1-core", "level": "model_checking", "text": text, "ref": ref, "note": E1_NOTE, "technique": E1_TECH}


CHECKS = {
    "C01": e1("Design level: TLC explores every interleaving of schedule/cancel/finish/poll/timer/reload within the bounds and checks the limit "
              "formulas. Code level: every TLC-generated script is executed on the real runner and every recorded state is checked by TLC for "
              "limit-at-start, run-inside-span and open-run count.", "DESIGN.md 6 C01"),
    "C02": e1("at-most-once, dependencies-first (action property at each Run begin), success-means-all, cyclic-never-runs and "
              "acyclic-completes are checked by TLC on the model and on every recorded trace.", "DESIGN.md 6 C02"),
    "C03": e1("finite-trace form of the leads-to (every script ends with a drain: all tasks released, all timers expired) plus the "
              "no-idle-head invariant at every quiescent snapshot; liveness under fairness on the model.", "DESIGN.md 6 C03"),
    "C04": e1("cancel at every quiescent point of every scripted history; ack / stop-delivery / no-new-task / reported-canceled / result "
              "clauses evaluated by TLC on every trace; TaskExec.tla: every cancel case of a two-line task (allow_failure or not, line 1 / 2, "
              "dependent task) run with real processes by the real task runner and validated by TLC.", "DESIGN.md 6 C04, 0.2"),
    "C05": e1("the decision table is evaluated by TLC at every schedule step against the pre-state observed through the API; "
              "reject-leaves-no-trace and the queue bound at every quiescent snapshot; the queue bound also in every snapshot of truly "
              "concurrent clients.", "DESIGN.md 6 C05, 0.2"),
    "C06": e1("FIFO clause evaluated at every step in which a waiting job becomes started (deep wait lists with cancels of any job; bursts "
              "whose start timers expire at the same instant); start order = order of the accepting critical sections under truly "
              "concurrent clients.", "DESIGN.md 6 C06, 0.2"),
    "C07": e1("exact under virtual time: start - accept >= delay for every started job; debounce clauses (newest wins / newest runs).", "DESIGN.md 6 C07"),
    "C08": e1("fail-fast / continue / verdict-sound / no-running-after-completed / no-run-after-failed-dependency on model and traces; "
              "TaskExec.tla failure cases on the real task runner; single-field reload of the fail-fast flag on the real binary; verdict of "
              "failed jobs under truly concurrent clients.", "DESIGN.md 6 C08, 0.2"),
    "C10": e1("restart steps (a new runner on a copy of the store as it is on disk) at arbitrary quiescent points of TLC-generated histories; "
              "all-terminal / no-ghosts / same-set / finished-jobs-faithful (vocabulary fields and the /job/detail JSON byte-equal) evaluated "
              "by TLC on the Restart line, no-ghost-capacity at the requests after it; payloads of several JSON types are sampled, not enumerated.", "DESIGN.md 6 C10"),
    "C11": e1("graceful and forced shutdown begun at arbitrary quiescent points, with schedule/cancel/finish/poll steps interleaved; "
              "all-terminal, store-matches, reject-after, graceful-runs-out, forced-cancels at the return; persist-within-interval exact "
              "under virtual time.", "DESIGN.md 6 C11"),
    "C12": e1("every step in which a job stops being reported is judged (keeps-unfinished, no-settings-no-removal, newest-first closure); "
              "count / period bounds, undefined-purged and the three views (API, store, log directories) at every explicit save.", "DESIGN.md 6 C12"),
    "C15": e1("schedulable-iff-accepted is confronted with a real request at every schedule step; running flag, listing, order and "
              "timestamps checked at every quiescent snapshot taken through the HTTP handler and IterateJobs.", "DESIGN.md 6 C15"),
    "C16": e1("commands / env / task set seen by the injected runner must be those of the version at acceptance; reload steps are inert; "
              "all jobs of defined pipelines terminal at drain; the start delay a job was accepted with is honoured after a reload; "
              "single-field reloads on the real binary; job-vs-installed-definitions by critical-section order under concurrent reloads.", "DESIGN.md 6 C16, 0.2"),
}

DOMAIN_NOTE = ("Trusted: TLC, the Go probe that executes the cases and records the rows. The case space is the finite one written in the "
               "spec (enumerated completely); surface syntax / byte-level payloads beyond it are sampled, not modelled.")

CHECKS["C14"] = {"engine": "auth", "level": "model_checking", "ref": "DESIGN.md 6 C14",
                 "text": "Auth.tla models the request path (router, verifier, authenticator, handler / profiler mount); TLC explores every request "
                         "of Kinds x Creds x Transports x Profiling and checks handler-only-if-valid. Every row of the same table is sent as a real "
                         "request to the real http.Handler (routes discovered from the chi router, 15 credential classes built by the harness, "
                         "header / cookie transports, profiling on and off, a runner holding running, waiting and finished jobs) and TLC validates "
                         "each recorded row (status, state digest before/after, leak markers in the body) against the spec's RowOK.",
                 "note": DOMAIN_NOTE + " JWT cryptography of jwtauth/jwx is trusted. A token whose header claims RS256 but which carries a valid "
                         "HMAC-SHA256 signature made with the configured secret is accepted by the library; it is not counted as an invalid class.",
                 "technique": "TLA+ spec of the auth path model-checked with TLC; full request table replayed on the real handler; rows validated by TLC against the spec"}
CHECKS["C17"] = {"engine": "defs", "level": "model_checking", "ref": "DESIGN.md 6 C17",
                 "text": "Defs.tla transcribes defaulting, validation, merge of a file sequence and equality; TLC enumerates 2019 cases (full product "
                         "of the per-field domains + file layouts) and checks LoadedAreValid / OrderIndependent on the expected results; each case is "
                         "written as YAML (two layouts / spellings) and loaded by the real LoadRecursively; Equals is exercised on single-field "
                         "variants generated by reflection over all fields (future fields included); TLC validates every recorded row.",
                 "note": DOMAIN_NOTE, "technique": "TLA+ spec enumerated by TLC as case generator and oracle; rows recorded from the real loader / Equals validated by TLC"}

CHECKS["C09"] = {"engine": "store", "level": "model_checking", "ref": "DESIGN.md 6 C09",
                 "text": "Store.tla (temp file + rename, two savers, Crash enabled in every state, reader at any time) is model-checked "
                         "(Published, ReadYourSave) with the in-place variant as negative control. The real JsonDataStore.Save runs in a child "
                         "process under strace: sequential saves of several sizes, a snapshot the encoder rejects, two concurrent savers; TLC "
                         "validates the syscall trace against the concrete Published invariant after every call. Then the process is really "
                         "killed (SIGKILL injected by strace) before every syscall of the save window and a fresh process must load exactly the "
                         "last published snapshot.",
                 "note": DOMAIN_NOTE + " Crash = process kill, not power loss (Save does not fsync). Exhaustive at syscall granularity for the "
                         "snapshot sizes used; states inside one write(2) are not distinguished.",
                 "technique": "TLA+ protocol spec model-checked with TLC; strace traces of the real Save validated by TLC; SIGKILL at every syscall boundary + Load"}

REAL_NOTE = ("Trusted: TLC, the Go probe, /bin/sh and coreutils of the sandbox, /proc. Real processes and wall-clock time: shapes, payload "
             "classes, sizes and concurrency are sampled from the finite spaces written in the specs; time bounds carry a latency allowance.")
CHECKS["C18"] = {"engine": "realproc", "level": "exploration", "ref": "DESIGN.md 6 C18",
                 "text": "Env.tla enumerates (subset of levels defining a name) x payload class x observation point and gives the visible level; real "
                         "tasks run through the real TaskRunner / PgidExecutor (built as in app.go) print every variable; TLC validates each row "
                         "against Visible(case) and checks that every case was recorded; template rendering per job and the refusal of __jobID "
                         "are extra rows.", "note": REAL_NOTE,
                 "technique": "TLA+ case spec enumerated by TLC as oracle; rows recorded from real task processes validated by TLC"}
CHECKS["C19"] = {"engine": "realproc", "level": "exploration", "ref": "DESIGN.md 6 C19",
                 "text": "Logs.tla enumerates 516 task shapes (commands x stream pattern x size classes) with the expected chunk order per stream; each "
                         "shape runs as a real task in 3 concurrent jobs; Reader bytes and GET /job/logs are compared; TLC validates order, equality and "
                         "absence of cross-talk per row; a burst of 16 jobs x 8 tasks started simultaneously, unknown tasks and other spellings of the "
                         "job id are extra rows.", "note": REAL_NOTE,
                 "technique": "TLA+ case spec enumerated by TLC as generator and oracle; rows recorded from real task output validated by TLC"}
CHECKS["C20"] = {"engine": "realproc", "level": "exploration", "ref": "DESIGN.md 6 C20",
                 "text": "Procs.tla models the kill protocol over all trees (leader + 2 descendants x ignores-SIGINT x holds-pipe); TLC proves NoSurvivor "
                         "and Bounded for the repaired protocol and refutes them for the original one. 10 real tree shapes x 2 cancel instants + forced "
                         "shutdown run as real tasks; /proc is scanned for marked processes at the report of the job and 250 ms later; TLC validates "
                         "the rows.", "note": REAL_NOTE,
                 "technique": "TLA+ protocol spec model-checked with TLC; rows recorded from real process trees validated by TLC"}

CHECKS["C13"] = {"engine": "conc", "level": "other", "ref": "DESIGN.md 6 C13",
                 "text": "Reduced strength, in three parts: (a) LockDiscipline.tla - TLC shows that 'mutate only under the write lock, read only under "
                         "some lock' implies no conflicting concurrent access, and refutes the variant with a mutation under the read lock; the "
                         "discipline is bound to the code by lock-mode probes (TryRLock / TryLock from inside the critical section) at 16 access sites "
                         "of PipelineRunner, validated by TLC on every recorded (site, mode) row; (b) snapshots taken by 8 concurrent seeded clients "
                         "(one pipeline runs the real TaskRunner with real processes) must be consistent; (c) the probe is a -race build: data-race "
                         "reports and runtime faults whose racing stack is prunner code are rows as well - the oracle named by the property itself.",
                 "note": "The race detector only sees the schedules that happened (seeded, 2 x 1.5 s quick, 6 x 4 s thorough); accesses at sites without a "
                         "probe are covered only by it. TryRLock/TryLock can only err towards 'held' (no false alarm). Trusted: Go race detector, TLC.",
                 "technique": "TLA+ lock-discipline spec checked with TLC; lock-mode probe rows, reader snapshots and race-detector reports of a concurrent -race run validated by TLC"}

NA = {}

NOTES = ("All checks: bin/check <id> --tier quick|thorough; exit 0/1/2 (2 = infrastructure trouble, never a verdict). "
         "Engine results are cached under .cache/ keyed by the content of /repo's working tree, /verif's specs+harness, tier and VERIF_SEED.")

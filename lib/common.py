"""Shared helpers for the /verif checks: scratch dirs, TLC runs, hashing, evidence files."""
import contextlib
import fcntl
import hashlib
import json
import os
import re
import shutil
import subprocess
import sys
import tempfile
import time

VERIF = os.path.dirname(os.path.dirname(os.path.abspath(__file__)))
REPO = os.environ.get("VERIF_REPO", "/repo")
TLA = os.path.join(VERIF, "tla")
CACHE = os.environ.get("VERIF_CACHE", os.path.join(VERIF, ".cache"))
EVID = os.environ.get("VERIF_EVID", os.path.join(VERIF, "evidence"))

GOENV = dict(os.environ, GOFLAGS="-mod=mod", GOPROXY="off", GOSUMDB="off", GOTOOLCHAIN="local",
             CGO_ENABLED=os.environ.get("CGO_ENABLED", "0"))


class Infra(Exception):
    """Infrastructure trouble: exit 2, never a violation."""


def seed():
    try:
        return int(os.environ.get("VERIF_SEED", "1"))
    except ValueError:
        return 1


def log(*a):
    print(*a, file=sys.stderr, flush=True)


@contextlib.contextmanager
def scratch(prefix="verif-"):
    d = tempfile.mkdtemp(prefix=prefix)
    try:
        yield d
    finally:
        shutil.rmtree(d, ignore_errors=True)


def sha_files(paths):
    h = hashlib.sha256()
    for p in sorted(paths):
        h.update(p.encode())
        try:
            with open(p, "rb") as f:
                h.update(f.read())
        except OSError:
            h.update(b"<missing>")
    return h.hexdigest()


def repo_files():
    out = []
    for root, dirs, files in os.walk(REPO):
        dirs[:] = [d for d in dirs if d not in (".git", "node_modules")]
        for f in files:
            if f.endswith((".go", ".mod", ".sum", ".yml", ".yaml")):
                out.append(os.path.join(root, f))
    return out


def verif_files(subdirs=("tla", "harness", "lib", "bin", "scripts")):
    out = []
    for sd in subdirs:
        for root, dirs, files in os.walk(os.path.join(VERIF, sd)):
            dirs[:] = [d for d in dirs if d not in ("__pycache__",)]
            for f in files:
                if not f.endswith((".pyc",)):
                    out.append(os.path.join(root, f))
    return out


def tree_key(*extra):
    h = hashlib.sha256()
    h.update(sha_files(repo_files()).encode())
    h.update(sha_files(verif_files()).encode())
    for e in extra:
        h.update(str(e).encode())
    return h.hexdigest()[:20]


@contextlib.contextmanager
def locked(path):
    os.makedirs(os.path.dirname(path), exist_ok=True)
    with open(path, "w") as f:
        fcntl.flock(f, fcntl.LOCK_EX)
        try:
            yield
        finally:
            fcntl.flock(f, fcntl.LOCK_UN)


def run(cmd, cwd=None, env=None, timeout=None, check=False, stdout=subprocess.PIPE, stderr=subprocess.STDOUT):
    try:
        p = subprocess.run(cmd, cwd=cwd, env=env, timeout=timeout, stdout=stdout, stderr=stderr, text=True, errors="replace")
    except subprocess.TimeoutExpired as e:
        raise Infra("timeout after %ss: %s" % (timeout, " ".join(cmd[:6])))
    if check and p.returncode != 0:
        raise Infra("command failed (%d): %s\n%s" % (p.returncode, " ".join(cmd[:8]), (p.stdout or "")[-3000:]))
    return p


TLC_JAR = "/opt/veriftools/tla/tla2tools.jar"


def tlc_env(heap=None):
    """The JVM would take a quarter of the machine's memory per TLC process; several run side by side."""
    env = dict(os.environ)
    opts = env.get("JAVA_TOOL_OPTIONS", "")
    if "-Xmx" not in opts:
        env["JAVA_TOOL_OPTIONS"] = (opts + " -Xmx%s" % (heap or os.environ.get("VERIF_TLC_HEAP", "4g"))).strip()
    return env


def tlc(workdir, module, cfg, workers=4, timeout=900, extra=(), heap=None):
    """Run TLC in workdir (a scratch copy of the spec). Returns (returncode, output)."""
    meta = os.path.join(workdir, "meta-" + os.path.basename(cfg))
    cmd = ["tlc", "-workers", str(workers), "-metadir", meta, "-config", cfg] + list(extra) + [module]
    env = tlc_env(heap)
    p = run(cmd, cwd=workdir, env=env, timeout=timeout)
    out = p.stdout or ""
    return p.returncode, out


def tlc_to_file(workdir, module, cfg, outfile, workers=4, timeout=900, extra=()):
    """Run TLC with its output going to a file (large dumps). Returns the return code."""
    import subprocess
    meta = os.path.join(workdir, "meta-" + os.path.basename(cfg))
    cmd = ["tlc", "-workers", str(workers), "-metadir", meta, "-config", cfg] + list(extra) + [module]
    with open(outfile, "w") as f:
        try:
            p = subprocess.run(cmd, cwd=workdir, stdout=f, stderr=subprocess.STDOUT, timeout=timeout, env=tlc_env())
        except subprocess.TimeoutExpired:
            raise Infra("TLC timed out after %d s: %s" % (timeout, " ".join(cmd)))
    return p.returncode


def tlc_stats(out):
    m = re.search(r"(\d+) states generated, (\d+) distinct states found", out)
    if not m:
        return None
    return {"generated": int(m.group(1)), "distinct": int(m.group(2))}


def copy_specs(dst, names=None):
    for f in os.listdir(TLA):
        if f.endswith((".tla", ".cfg")) and (names is None or f in names):
            shutil.copy(os.path.join(TLA, f), dst)


def write_evidence(pid, tier, level, coverage, wall, violations=0, assumptions=()):
    os.makedirs(EVID, exist_ok=True)
    ev = {"property_id": pid, "tier": tier, "seed": seed(), "level": level, "coverage": coverage,
          "assumptions": list(assumptions), "wall_s": round(wall, 2), "violations": violations}
    tmp = os.path.join(EVID, pid + ".json.tmp")
    with open(tmp, "w") as f:
        json.dump(ev, f, indent=1)
    os.replace(tmp, os.path.join(EVID, pid + ".json"))


def load_known():
    p = os.path.join(VERIF, "known_findings.json")
    if not os.path.exists(p):
        return []
    with open(p) as f:
        return json.load(f).get("findings", [])

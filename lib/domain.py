"""Domain engines (C17 definitions, C14 auth, C09 store, ...): TLC enumerates the case space of a small spec, a Go probe
executes every case on the real code, TLC validates the recorded rows against the spec."""
import json
import os
import re
import shutil
import time

from common import (EVID, GOENV, Infra, REPO, TLA, VERIF, copy_specs, log, run, scratch, seed, tlc, tlc_stats, write_evidence)


def build_probe(pkg, dst, race=False):
    """go test -c of harness/<pkg> against REPO's working tree."""
    out = os.path.join(dst, pkg + ".test")
    with scratch("verif-build-") as b:
        h = os.path.join(b, "harness")
        shutil.copytree(os.path.join(VERIF, "harness"), h)
        shutil.copy(os.path.join(REPO, "go.sum"), os.path.join(h, "go.sum"))
        p = run(["go1.26", "mod", "edit", "-replace", "github.com/Flowpack/prunner=" + REPO], cwd=h, env=GOENV, timeout=120)
        if p.returncode != 0:
            raise Infra("go mod edit failed:\n" + p.stdout[-2000:])
        env = dict(GOENV)
        cmd = ["go1.26", "test", "-c", "-tags", "verif", "-o", out]
        if race:
            cmd.append("-race")
            env["CGO_ENABLED"] = "1"
        p = run(cmd + ["./" + pkg], cwd=h, env=env, timeout=900)
        if p.returncode != 0:
            raise Infra("probe build failed (does /repo still compile?):\n" + p.stdout[-4000:])
    return out


def tlc_violation(out):
    m = re.search(r"Error: Invariant (\S+) is violated", out) or re.search(r"Error: Action property (\S+) is violated", out)
    if not m:
        return None
    return m.group(1)


def last_alias_state(out):
    """fields of the last printed state of a TLC error trace (ALIAS record)"""
    blocks = re.split(r"\nState \d+: ", out)
    if len(blocks) < 2:
        return {}
    last = blocks[-1]
    d = {}
    for m in re.finditer(r"/\\ (\w+) = (.+)", last):
        d[m.group(1)] = m.group(2).strip()
    return d


def write_replay(pid, n, obj):
    os.makedirs(os.path.join(EVID, "replay"), exist_ok=True)
    path = os.path.join(EVID, "replay", "%s-%d.json" % (pid, n))
    with open(path, "w") as f:
        json.dump(obj, f, indent=1)
    return path


def clean_replays(pid):
    d = os.path.join(EVID, "replay")
    if os.path.isdir(d):
        for old in os.listdir(d):
            if old.startswith(pid + "-"):
                os.unlink(os.path.join(d, old))


# ---------------------------------------------------------------------------------------------------------------
# C17 definitions

def c17(pid, tier, replay):
    t0 = time.time()
    clean_replays(pid)
    with scratch("verif-c17-") as work:
        copy_specs(work, {"Defs.tla", "DefsGen.tla", "DefsGen.cfg", "DefsTrace.tla", "DefsTrace.cfg"})
        rc, out = tlc(work, "DefsGen.tla", "DefsGen.cfg", workers=1, timeout=600)
        cases = os.path.join(work, "defs_cases.ndjson")
        if "No error has been found" not in out or not os.path.exists(cases):
            # a failed ASSUME is a defect of the specification itself
            raise Infra("Defs.tla case generation / design-level assumptions failed:\n" + out[-3000:])
        ncases = sum(1 for _ in open(cases))
        probe = build_probe("defsprobe", work)
        env = dict(os.environ, VERIF_CASES=cases, VERIF_ROWS_LOAD=os.path.join(work, "defs_load_rows.ndjson"),
                   VERIF_ROWS_EQ=os.path.join(work, "defs_eq_rows.ndjson"))
        p = run([probe, "-test.run", "TestLoadCases|TestEquals", "-test.count", "1"], env=env, timeout=900)
        if p.returncode != 0 or p.stdout.count("VERIF-DONE") < 2:
            raise Infra("defs probe failed:\n" + p.stdout[-3000:])
        load_rows = [json.loads(l) for l in open(env["VERIF_ROWS_LOAD"])]
        eq_rows = [json.loads(l) for l in open(env["VERIF_ROWS_EQ"])]
        viols = []
        # TLC stops at the first violated row; drop it and re-check to report every distinct failing row (bounded)
        for rnd in range(12):
            rc, out = tlc(work, "DefsTrace.tla", "DefsTrace.cfg", workers=2, timeout=900)
            if "No error has been found" in out:
                break
            name = tlc_violation(out)
            if not name:
                raise Infra("TLC row validation failed:\n" + out[-3000:])
            st = last_alias_state(out)
            kind = st.get("kind", '"load"').strip('"')
            line = int(st.get("line", "1"))
            fn = env["VERIF_ROWS_LOAD"] if kind == "load" else env["VERIF_ROWS_EQ"]
            rows = open(fn).read().splitlines()
            if name == "C17_AllCasesCovered":
                raise Infra("not every case of Defs.tla was executed")
            bad = json.loads(rows[line - 1])
            viols.append({"formula": name, "kind": kind, "row": bad})
            del rows[line - 1]
            with open(fn, "w") as f:
                f.write("\n".join(rows) + ("\n" if rows else ""))
            if kind == "load":
                # keep coverage accounting intact for the re-check
                cfg = os.path.join(work, "DefsTrace.cfg")
                txt = open(cfg).read().replace(" C17_AllCasesCovered", "")
                open(cfg, "w").write(txt)
        reported = []
        for v in viols:
            r = v["row"]
            desc = "formula=%s " % v["formula"] + ("field=%s" % r.get("field") if v["kind"] == "eq" else "case=%s" % json.dumps(r.get("files")))
            path = write_replay(pid, len(reported) + 1, {"property": pid, "formula": v["formula"], "engine": "defs", "row": r, "desc": desc})
            reported.append((v, path, desc))
    fields = sorted({r["field"] for r in eq_rows})
    cov = {"states": ncases, "transitions": len(load_rows) + len(eq_rows), "traces_validated_against_impl": len(load_rows) + len(eq_rows),
           "exhaustive": True,
           "samples": [{"load_case": load_rows[7]["files"], "err": load_rows[7]["err"], "errmsg": load_rows[7]["errmsg"]},
                       {"eq_variant": eq_rows[5]["field"], "eq": eq_rows[5]["eq"]}],
           "evaluations": len(load_rows) + len(eq_rows), "distinct_nontrivial": ncases + len(fields),
           "rule": "load: every case of Defs.tla (full product of the per-field domains for one pipeline + file layouts), each loaded "
                   "twice (other creation order / nesting / YAML spelling); equality: one row per single-field change enumerated by "
                   "reflection over PipelinesDef, PipelineDef, TaskDef (distinct = distinct field paths)",
           "load_cases": ncases, "load_errors_expected": sum(1 for r in load_rows if r["err"]), "eq_rows": len(eq_rows), "eq_fields": len(fields),
           "explanation": "TLC enumerates Defs.tla's case space and checks LoadedAreValid / OrderIndependent on the expected results; every case "
                          "runs through the real LoadRecursively; TLC validates each recorded row against Expected(case) and each Equals "
                          "result against structural equality of the normalised definitions"}
    write_evidence(pid, tier, "model_checking", cov, time.time() - t0, violations=len(reported),
                   assumptions=["YAML surface syntax is produced by one serializer with two spellings (sampled, not modelled)",
                                "value domains per field are finite (Defs.tla)"])
    from checks import known_match
    rc = 0
    for v, path, desc in reported:
        k = known_match(pid, desc)
        if k:
            print("KNOWN-FINDING: property=%s %s" % (pid, k.get("description", desc)))
            continue
        print("VIOLATION property=%s replay=%s" % (pid, path))
        log("  " + desc[:300])
        rc = 1
    return rc


# ---------------------------------------------------------------------------------------------------------------
# C14 authentication

def c14(pid, tier, replay):
    t0 = time.time()
    clean_replays(pid)
    with scratch("verif-c14-") as work:
        copy_specs(work, {"Auth.tla", "AuthTable.tla", "Auth.cfg", "AuthTrace.tla", "AuthTrace.cfg"})
        rc, out = tlc(work, "Auth.tla", "Auth.cfg", workers=2, timeout=300)
        st = tlc_stats(out)
        if "No error has been found" not in out:
            raise Infra("Auth.tla design check failed:\n" + out[-3000:])
        probe = build_probe("authprobe", work)
        rows_file = os.path.join(work, "auth_rows.ndjson")
        p = run([probe, "-test.run", "TestAuthTable", "-test.count", "1"], env=dict(os.environ, VERIF_ROWS_AUTH=rows_file), timeout=900)
        if p.returncode != 0 or "VERIF-DONE" not in p.stdout:
            raise Infra("auth probe failed:\n" + p.stdout[-3000:])
        rows = [json.loads(l) for l in open(rows_file)]
        viols = []
        for rnd in range(40):
            rc, out = tlc(work, "AuthTrace.tla", "AuthTrace.cfg", workers=1, timeout=600)
            if "No error has been found" in out:
                break
            name = tlc_violation(out)
            if not name:
                if "Assumption" in out and "is false" in out:
                    raise Infra("auth table incomplete: not every route x credential x transport x profiling row was recorded")
                raise Infra("TLC row validation failed:\n" + out[-3000:])
            if name in ("ValidAccepted",):
                raise Infra("auth harness sanity failed (%s): valid credentials rejected or table incomplete" % name)
            line = int(last_alias_state(out).get("line", "1"))
            lines = open(rows_file).read().splitlines()
            viols.append(json.loads(lines[line - 1]))
            del lines[line - 1]
            open(rows_file, "w").write("\n".join(lines) + "\n")
            # the completeness ASSUME was checked on the full table in the first round
            tl = os.path.join(work, "AuthTrace.tla")
            txt = open(tl).read().replace("ASSUME TableComplete", "")
            open(tl, "w").write(txt)
    reported = []
    seen = set()
    for r in viols:
        key = (r["route"], r["method"], r["cred"], r["kind"])
        if key in seen:
            continue
        seen.add(key)
        desc = "formula=C14_RowAsSpecified route=%s %s kind=%s cred=%s transport=%s profiling=%s status=%s leak=%s changed=%s" % (
            r["method"], r["route"], r["kind"], r["cred"], r["transport"], r["profiling"], r["status"], r["leak"], r["changed"])
        path = write_replay(pid, len(reported) + 1, {"property": pid, "engine": "auth", "row": r, "desc": desc})
        reported.append((r, path, desc))
    api = sorted({(r["method"], r["route"]) for r in rows if r["kind"] == "api"})
    cov = {"states": st["distinct"] if st else 1, "transitions": st["generated"] if st else 1, "traces_validated_against_impl": len(rows),
           "exhaustive": True, "samples": [rows[0], rows[len(rows) // 2]],
           "evaluations": len(rows), "distinct_nontrivial": len({(r["route"], r["method"], r["cred"], r["transport"], r["profiling"]) for r in rows}),
           "rule": "one real request per (route, method, credential class, transport, profiling); routes discovered from the chi router",
           "api_routes": ["%s %s" % a for a in api], "rejected_rows": sum(1 for r in rows if r["status"] == 401),
           "explanation": "TLC explores the request-processing model of Auth.tla (all requests) and validates each recorded row against RowOK"}
    write_evidence(pid, tier, "model_checking", cov, time.time() - t0, violations=len(reported),
                   assumptions=["JWT cryptography of the jwtauth / jwx libraries is trusted", "credential classes are enumerated, not all byte strings"])
    from checks import known_match
    rc = 0
    for r, path, desc in reported[:8]:
        k = known_match(pid, desc)
        if k:
            print("KNOWN-FINDING: property=%s %s" % (pid, k.get("description", desc)))
            continue
        print("VIOLATION property=%s replay=%s" % (pid, path))
        log("  " + desc)
        rc = 1
    return rc

"""Domain engines (C17 definitions, C14 auth, C09 store, ...): TLC enumerates the case space of a small spec, a Go probe
executes every case on the real code, TLC validates the recorded rows against the spec."""
import json
import os
import re
import shutil
import time

from common import (EVID, GOENV, Infra, REPO, TLA, VERIF, copy_specs, log, run, scratch, seed, tlc, tlc_stats, write_evidence)


def build_probe(pkg, dst, race=False):
    """go test -c of harness/<pkg> against REPO's working tree."""
    out = os.path.join(dst, pkg + ".test")
    with scratch("verif-build-") as b:
        h = os.path.join(b, "harness")
        shutil.copytree(os.path.join(VERIF, "harness"), h)
        shutil.copy(os.path.join(REPO, "go.sum"), os.path.join(h, "go.sum"))
        p = run(["go1.26", "mod", "edit", "-replace", "github.com/Flowpack/prunner=" + REPO], cwd=h, env=GOENV, timeout=120)
        if p.returncode != 0:
            raise Infra("go mod edit failed:\n" + p.stdout[-2000:])
        env = dict(GOENV)
        cmd = ["go1.26", "test", "-c", "-tags", "verif", "-o", out]
        if race:
            cmd.append("-race")
            env["CGO_ENABLED"] = "1"
        p = run(cmd + ["./" + pkg], cwd=h, env=env, timeout=900)
        if p.returncode != 0:
            raise Infra("probe build failed (does /repo still compile?):\n" + p.stdout[-4000:])
    return out


def tlc_violation(out):
    m = re.search(r"Error: Invariant (\S+) is violated", out) or re.search(r"Error: Action property (\S+) is violated", out)
    if not m:
        return None
    return m.group(1)


def last_alias_state(out):
    """fields of the last printed state of a TLC error trace (ALIAS record)"""
    blocks = re.split(r"\nState \d+: ", out)
    if len(blocks) < 2:
        return {}
    last = blocks[-1]
    d = {}
    for m in re.finditer(r"^(?:/\\ )?(\w+) = (.+)$", last, re.M):
        d[m.group(1)] = m.group(2).strip()
    return d


def write_replay(pid, n, obj):
    os.makedirs(os.path.join(EVID, "replay"), exist_ok=True)
    path = os.path.join(EVID, "replay", "%s-%d.json" % (pid, n))
    with open(path, "w") as f:
        json.dump(obj, f, indent=1)
    return path


def clean_replays(pid):
    d = os.path.join(EVID, "replay")
    if os.path.isdir(d):
        for old in os.listdir(d):
            if old.startswith(pid + "-"):
                os.unlink(os.path.join(d, old))


# ---------------------------------------------------------------------------------------------------------------
# C17 definitions

def c17(pid, tier, replay):
    t0 = time.time()
    clean_replays(pid)
    with scratch("verif-c17-") as work:
        copy_specs(work, {"Defs.tla", "DefsGen.tla", "DefsGen.cfg", "DefsTrace.tla", "DefsTrace.cfg"})
        rc, out = tlc(work, "DefsGen.tla", "DefsGen.cfg", workers=1, timeout=600)
        cases = os.path.join(work, "defs_cases.ndjson")
        if "No error has been found" not in out or not os.path.exists(cases):
            # a failed ASSUME is a defect of the specification itself
            raise Infra("Defs.tla case generation / design-level assumptions failed:\n" + out[-3000:])
        ncases = sum(1 for _ in open(cases))
        probe = build_probe("defsprobe", work)
        env = dict(os.environ, VERIF_CASES=cases, VERIF_ROWS_LOAD=os.path.join(work, "defs_load_rows.ndjson"),
                   VERIF_ROWS_EQ=os.path.join(work, "defs_eq_rows.ndjson"))
        p = run([probe, "-test.run", "TestLoadCases|TestEquals", "-test.count", "1"], env=env, timeout=900)
        if p.returncode != 0 or p.stdout.count("VERIF-DONE") < 2:
            raise Infra("defs probe failed:\n" + p.stdout[-3000:])
        load_rows = [json.loads(l) for l in open(env["VERIF_ROWS_LOAD"])]
        eq_rows = [json.loads(l) for l in open(env["VERIF_ROWS_EQ"])]
        viols = []
        # TLC stops at the first violated row; drop it and re-check to report every distinct failing row (bounded)
        for rnd in range(12):
            rc, out = tlc(work, "DefsTrace.tla", "DefsTrace.cfg", workers=2, timeout=900)
            if "No error has been found" in out:
                break
            name = tlc_violation(out)
            if not name:
                raise Infra("TLC row validation failed:\n" + out[-3000:])
            st = last_alias_state(out)
            kind = st.get("kind", '"load"').strip('"')
            line = int(st.get("line", "1"))
            fn = env["VERIF_ROWS_LOAD"] if kind == "load" else env["VERIF_ROWS_EQ"]
            rows = open(fn).read().splitlines()
            if name == "C17_AllCasesCovered":
                raise Infra("not every case of Defs.tla was executed")
            bad = json.loads(rows[line - 1])
            viols.append({"formula": name, "kind": kind, "row": bad})
            del rows[line - 1]
            with open(fn, "w") as f:
                f.write("\n".join(rows) + ("\n" if rows else ""))
            if kind == "load":
                # keep coverage accounting intact for the re-check
                cfg = os.path.join(work, "DefsTrace.cfg")
                txt = open(cfg).read().replace(" C17_AllCasesCovered", "")
                open(cfg, "w").write(txt)
        reported = []
        for v in viols:
            r = v["row"]
            desc = "formula=%s " % v["formula"] + ("field=%s" % r.get("field") if v["kind"] == "eq" else "case=%s" % json.dumps(r.get("files")))
            path = write_replay(pid, len(reported) + 1, {"property": pid, "formula": v["formula"], "engine": "defs", "row": r, "desc": desc})
            reported.append((v, path, desc))
    fields = sorted({r["field"] for r in eq_rows})
    cov = {"states": ncases, "transitions": len(load_rows) + len(eq_rows), "traces_validated_against_impl": len(load_rows) + len(eq_rows),
           "exhaustive": True,
           "samples": [{"load_case": load_rows[7]["files"], "err": load_rows[7]["err"], "errmsg": load_rows[7]["errmsg"]},
                       {"eq_variant": eq_rows[5]["field"], "eq": eq_rows[5]["eq"]}],
           "evaluations": len(load_rows) + len(eq_rows), "distinct_nontrivial": ncases + len(fields),
           "rule": "load: every case of Defs.tla (full product of the per-field domains for one pipeline + file layouts), each loaded "
                   "twice (other creation order / nesting / YAML spelling); equality: one row per single-field change enumerated by "
                   "reflection over PipelinesDef, PipelineDef, TaskDef (distinct = distinct field paths)",
           "load_cases": ncases, "load_errors_expected": sum(1 for r in load_rows if r["err"]), "eq_rows": len(eq_rows), "eq_fields": len(fields),
           "explanation": "TLC enumerates Defs.tla's case space and checks LoadedAreValid / OrderIndependent on the expected results; every case "
                          "runs through the real LoadRecursively; TLC validates each recorded row against Expected(case) and each Equals "
                          "result against structural equality of the normalised definitions"}
    write_evidence(pid, tier, "model_checking", cov, time.time() - t0, violations=len(reported),
                   assumptions=["YAML surface syntax is produced by one serializer with two spellings (sampled, not modelled)",
                                "value domains per field are finite (Defs.tla)"])
    from checks import known_match
    rc = 0
    for v, path, desc in reported:
        k = known_match(pid, desc)
        if k:
            print("KNOWN-FINDING: property=%s %s" % (pid, k.get("description", desc)))
            continue
        print("VIOLATION property=%s replay=%s" % (pid, path))
        log("  " + desc[:300])
        rc = 1
    return rc


# ---------------------------------------------------------------------------------------------------------------
# C14 authentication

def c14(pid, tier, replay):
    t0 = time.time()
    clean_replays(pid)
    with scratch("verif-c14-") as work:
        copy_specs(work, {"Auth.tla", "AuthTable.tla", "Auth.cfg", "AuthTrace.tla", "AuthTrace.cfg"})
        rc, out = tlc(work, "Auth.tla", "Auth.cfg", workers=2, timeout=300)
        st = tlc_stats(out)
        if "No error has been found" not in out:
            raise Infra("Auth.tla design check failed:\n" + out[-3000:])
        probe = build_probe("authprobe", work)
        rows_file = os.path.join(work, "auth_rows.ndjson")
        p = run([probe, "-test.run", "TestAuthTable", "-test.count", "1"], env=dict(os.environ, VERIF_ROWS_AUTH=rows_file), timeout=900)
        if p.returncode != 0 or "VERIF-DONE" not in p.stdout:
            raise Infra("auth probe failed:\n" + p.stdout[-3000:])
        rows = [json.loads(l) for l in open(rows_file)]
        viols = []
        for rnd in range(40):
            rc, out = tlc(work, "AuthTrace.tla", "AuthTrace.cfg", workers=1, timeout=600)
            if "No error has been found" in out:
                break
            name = tlc_violation(out)
            if not name:
                if "Assumption" in out and "is false" in out:
                    raise Infra("auth table incomplete: not every route x credential x transport x profiling row was recorded")
                raise Infra("TLC row validation failed:\n" + out[-3000:])
            if name in ("ValidAccepted",):
                raise Infra("auth harness sanity failed (%s): valid credentials rejected or table incomplete" % name)
            line = int(last_alias_state(out).get("line", "1"))
            lines = open(rows_file).read().splitlines()
            viols.append(json.loads(lines[line - 1]))
            del lines[line - 1]
            open(rows_file, "w").write("\n".join(lines) + "\n")
            # the completeness ASSUME was checked on the full table in the first round
            tl = os.path.join(work, "AuthTrace.tla")
            txt = open(tl).read().replace("ASSUME TableComplete", "")
            open(tl, "w").write(txt)
        # which secret is "the configured secret" (Secret.tla): every case through the real config.LoadOrCreateConfig
        copy_specs(work, {"Secret.tla", "RowsSecret.tla", "RowsSecret.cfg"})
        srows_file = os.path.join(work, "secret_rows.ndjson")
        p = run([probe, "-test.run", "TestSecretConfig", "-test.count", "1"], env=dict(os.environ, VERIF_ROWS_SECRET=srows_file), timeout=300)
        if p.returncode != 0 or not os.path.exists(srows_file):
            raise Infra("secret probe failed:\n" + p.stdout[-3000:])
        srows = [json.loads(l) for l in open(srows_file)]
        sviols = []
        for rnd in range(20):
            rc, out = tlc(work, "RowsSecret.tla", "RowsSecret.cfg", workers=1, timeout=300)
            if "No error has been found" in out:
                break
            name = tlc_violation(out)
            if not name:
                if "Assumption" in out and "is false" in out:
                    raise Infra("secret table incomplete or a design statement of Secret.tla does not hold:\n" + out[-1500:])
                raise Infra("TLC row validation (secret) failed:\n" + out[-3000:])
            line = int(last_alias_state(out).get("line", "1"))
            lines = open(srows_file).read().splitlines()
            sviols.append(json.loads(lines[line - 1]))
            del lines[line - 1]
            open(srows_file, "w").write("\n".join(lines) + "\n")
            tl = os.path.join(work, "RowsSecret.tla")
            txt = "\n".join(x for x in open(tl).read().split("\n") if not x.startswith("ASSUME {"))
            open(tl, "w").write(txt)
    reported = []
    seen = set()
    for r in sviols:
        desc = "formula=C14_ConfiguredSecret cli=%s file=%s source=%s created=%s secretLen=%s" % (r["cli"], r["file"], r["source"], r["created"], r["secretLen"])
        path = write_replay(pid, len(reported) + 1, {"property": pid, "engine": "auth", "row": r, "desc": desc})
        reported.append((r, path, desc))
    for r in viols:
        key = (r["route"], r["method"], r["cred"], r["kind"])
        if key in seen:
            continue
        seen.add(key)
        desc = "formula=C14_RowAsSpecified route=%s %s kind=%s cred=%s transport=%s profiling=%s status=%s leak=%s changed=%s" % (
            r["method"], r["route"], r["kind"], r["cred"], r["transport"], r["profiling"], r["status"], r["leak"], r["changed"])
        path = write_replay(pid, len(reported) + 1, {"property": pid, "engine": "auth", "row": r, "desc": desc})
        reported.append((r, path, desc))
    api = sorted({(r["method"], r["route"]) for r in rows if r["kind"] == "api"})
    cov = {"states": st["distinct"] if st else 1, "transitions": st["generated"] if st else 1, "traces_validated_against_impl": len(rows),
           "exhaustive": True, "samples": [rows[0], rows[len(rows) // 2]],
           "evaluations": len(rows), "distinct_nontrivial": len({(r["route"], r["method"], r["cred"], r["transport"], r["profiling"]) for r in rows}),
           "rule": "one real request per (route, method, credential class, transport, profiling); routes discovered from the chi router",
           "api_routes": ["%s %s" % a for a in api], "rejected_rows": sum(1 for r in rows if r["status"] == 401),
           "secret_cases": len(srows),
           "explanation": "TLC explores the request-processing model of Auth.tla (all requests) and validates each recorded row against RowOK; "
                          "Secret.tla: which secret is in force for every combination of command-line secret and config file, through the real loader"}
    write_evidence(pid, tier, "model_checking", cov, time.time() - t0, violations=len(reported),
                   assumptions=["JWT cryptography of the jwtauth / jwx libraries is trusted", "credential classes are enumerated, not all byte strings"])
    from checks import known_match
    rc = 0
    for r, path, desc in reported[:8]:
        k = known_match(pid, desc)
        if k:
            print("KNOWN-FINDING: property=%s %s" % (pid, k.get("description", desc)))
            continue
        print("VIOLATION property=%s replay=%s" % (pid, path))
        log("  " + desc)
        rc = 1
    return rc


# ---------------------------------------------------------------------------------------------------------------
# generic: real-process probe -> rows -> TLC validation (C18, C19, C20)

def rows_engine(pid, tier, specs, module, cfg, test, files, describe, level_text, rule, assumptions, probe_env=None, timeout=1500,
                row_key=None):
    """files: {ENVVAR: filename-in-workdir}; the TLC cfg lists the invariants; ALIAS must give kind and line."""
    t0 = time.time()
    clean_replays(pid)
    with scratch("verif-%s-" % pid.lower()) as work:
        copy_specs(work, specs)
        probe = build_probe("realprobe", work)
        env = dict(os.environ, VERIF_TIER=tier, VERIF_SEED=str(seed()))
        env.update(probe_env or {})
        for k, fn in files.items():
            env[k] = os.path.join(work, fn)
        p = run([probe, "-test.run", test, "-test.count", "1", "-test.timeout", "0"], env=env, timeout=timeout)
        if p.returncode != 0 or "INFRA" in p.stdout:
            raise Infra("probe %s failed:\n%s" % (test, p.stdout[-3000:]))
        rows = {k: [json.loads(l) for l in open(env[k])] for k in files}
        kind_file = {}
        viols = []
        for rnd in range(25):
            rc, out = tlc(work, module, cfg, workers=2, timeout=900)
            if "No error has been found" in out:
                break
            name = tlc_violation(out)
            if not name:
                if "Assumption" in out and "is false" in out:
                    raise Infra("row table incomplete: the probe did not record every case of the specification")
                raise Infra("TLC row validation failed:\n" + out[-3000:])
            stt = last_alias_state(out)
            kind, line = stt.get("kind", '""').strip('"'), int(stt.get("line", "1"))
            fn = None
            for k, f in files.items():
                if f.endswith("_" + kind + "_rows.ndjson") or f == kind + "_rows.ndjson":
                    fn = env[k]
            if fn is None:
                fn = env[list(files)[0]]
            lines = open(fn).read().splitlines()
            bad = json.loads(lines[line - 1])
            viols.append((name, bad))
            del lines[line - 1]
            open(fn, "w").write("\n".join(lines) + "\n")
            # completeness of the table was checked in the first round
            tl = os.path.join(work, module)
            txt = "\n".join(l for l in open(tl).read().split("\n") if not l.startswith("ASSUME {"))
            open(tl, "w").write(txt)
    reported = []
    seen = set()
    for name, r in viols:
        desc = "formula=%s %s" % (name, describe(r))
        key = row_key(r) if row_key else desc
        if key in seen:
            continue
        seen.add(key)
        reported.append((r, write_replay(pid, len(reported) + 1, {"property": pid, "formula": name, "row": r, "desc": desc}), desc))
    n = sum(len(v) for v in rows.values())
    first = rows[list(files)[0]]
    cov = {"evaluations": n, "distinct_nontrivial": len({json.dumps(r, sort_keys=True) for v in rows.values() for r in v}),
           "rule": rule, "samples": [first[0], first[len(first) // 2]], "rows": {k: len(v) for k, v in rows.items()},
           "explanation": level_text}
    write_evidence(pid, tier, "exploration", cov, time.time() - t0, violations=len(reported), assumptions=assumptions)
    from checks import known_match
    rc = 0
    for r, path, desc in reported[:8]:
        k = known_match(pid, desc)
        if k:
            print("KNOWN-FINDING: property=%s %s" % (pid, k.get("description", desc)))
            continue
        print("VIOLATION property=%s replay=%s" % (pid, path))
        log("  " + desc[:300])
        rc = 1
    return rc


def c18(pid, tier, replay):
    return rows_engine(
        pid, tier, {"Env.tla", "RowsEnv.tla", "RowsEnv.cfg"}, "RowsEnv.tla", "RowsEnv.cfg", "TestEnv",
        {"VERIF_ROWS_ENV": "env_rows.ndjson", "VERIF_ROWS_ENV_EXTRA": "env_extra_rows.ndjson"},
        lambda r: ("name-levels=%s payload=%s point=%s seen=%s exact=%s" % (r["levels"], r["payload"], r["point"], r["seen"], r["exact"]))
        if "levels" in r else ("what=%s info=%s" % (r["what"], r.get("info"))),
        "Env.tla enumerates name-level subsets x payload classes x observation points and gives the visible level; real /bin/sh tasks "
        "started by the real TaskRunner print every variable; each recorded row is validated by TLC against Visible(case); template "
        "rendering with the job's own variables and the refusal of the reserved variable name are checked as extra rows",
        "one row per (subset of levels defining the name, payload class, (pipeline, task)); distinct = distinct rows",
        ["byte-level payload space is sampled (6 classes), not enumerated", "job variables containing template syntax are excluded (upstream variable nesting)"])


def c19(pid, tier, replay):
    gen_cfg, cfg = ("LogsGen4.cfg", "RowsLogs4.cfg") if tier == "thorough" else ("LogsGen.cfg", "RowsLogs.cfg")
    # TLC enumerates the shapes for the probe
    gen = os.path.join(VERIF, ".cache", "logs-cases-%s-%d" % (tier, os.getpid()))
    os.makedirs(gen, exist_ok=True)
    try:
        copy_specs(gen, {"Logs.tla", "LogsGen.tla", gen_cfg})
        rc, out = tlc(gen, "LogsGen.tla", gen_cfg, workers=1, timeout=300)
        cases = os.path.join(gen, "logs_cases.ndjson")
        if "No error has been found" not in out or not os.path.exists(cases):
            raise Infra("Logs.tla case generation failed:\n" + out[-2000:])
        return rows_engine(
            pid, tier, {"Logs.tla", "RowsLogs.tla", cfg}, "RowsLogs.tla", cfg, "TestLogs",
            {"VERIF_ROWS_LOGS": "logs_rows.ndjson", "VERIF_ROWS_LOGS_EXTRA": "logs_extra_rows.ndjson"},
            lambda r: ("shape=%s job=%s task=%s stream=%s equal=%s order=%s cross=%s apiEqual=%s len=%s/%s" % (
                json.dumps(r["shape"]), r["job"], r["task"], r["stream"], r["equal"], r["order"], r["cross"], r["apiEqual"], r["lenGot"], r["lenExp"]))
            if "shape" in r else ("what=%s info=%s" % (r["what"], r.get("info"))),
            "Logs.tla enumerates task shapes (1-3 commands x stream pattern x size classes) and gives the chunk order per stream; every shape "
            "runs as a real task (cat of seeded chunk files to stdout / stderr) in several concurrent jobs; Reader bytes and GET /job/logs are "
            "compared with the expectation and TLC validates order / equality / no cross-talk per row",
            "one row per (shape, job, stream); distinct = distinct rows",
            ["sizes and concurrency are sampled (classes up to 64 KiB + 1 in quick, 5 MiB in thorough)", "log API compared on ASCII payloads"],
            probe_env={"VERIF_CASES_LOGS": cases}, row_key=lambda r: json.dumps(r.get("shape", r.get("what"))) + str(r.get("stream")))
    finally:
        shutil.rmtree(gen, ignore_errors=True)


def c20(pid, tier, replay):
    # design level: the kill protocol as repaired satisfies NoSurvivor / Bounded for every tree shape; the original does not
    with scratch("verif-c20m-") as work:
        copy_specs(work, {"Procs.tla", "MC_Procs.tla", "MC_Procs.cfg", "MC_ProcsOrig.cfg"})
        rc, out = tlc(work, "MC_Procs.tla", "MC_Procs.cfg", workers=2, timeout=300)
        if "No error has been found" not in out:
            raise Infra("Procs.tla (repaired protocol) check failed:\n" + out[-2000:])
        rc, out2 = tlc(work, "MC_Procs.tla", "MC_ProcsOrig.cfg", workers=2, timeout=300)
        if "NoSurvivor is violated" not in out2:
            raise Infra("Procs.tla negative control did not fail")
    return rows_engine(
        pid, tier, {"RowsProcs.tla", "RowsProcs.cfg"}, "RowsProcs.tla", "RowsProcs.cfg", "TestProcs",
        {"VERIF_ROWS_PROCS": "procs_rows.ndjson"},
        lambda r: "shape=%s trigger=%s instant=%s survivors-at-report=%s survivors-after-grace=%s elapsed=%sms timeout=%sms reported=%s canceled=%s other-alive=%s" % (
            r["shape"], r["trigger"], r["instant"], r["atReport"], r["afterGrace"], r["elapsedMs"], r["timeoutMs"], r["reported"], r["canceled"], r["otherAlive"]),
        "Procs.tla models the kill protocol (own process group, SIGINT on cancel, SIGKILL after the timeout, Wait returns when the leader is gone "
        "and the pipe has no writer) over all trees of a leader and two descendants x (ignores SIGINT, holds the pipe); TLC checks NoSurvivor and "
        "Bounded. Real trees of the same classes run as /bin/sh tasks under the real TaskRunner; at the moment the job is first reported "
        "finished, and 250 ms later, /proc is scanned for processes carrying the job's marker",
        "one row per (process tree shape, cancel instant, trigger); distinct = distinct rows",
        ["wall-clock bounds use the kill timeout (400 ms) + 1.5 s latency allowance", "10 tree shapes, not all shell programs"],
        row_key=lambda r: r["shape"] + r["trigger"])


# ---------------------------------------------------------------------------------------------------------------
# C13 concurrency: lock discipline probes + consistent snapshots + race detector (declared auxiliary oracle)

def exec_engine(tier):
    """TaskExec.tla: every case of the two-line task run with real processes (harness/realprobe TestExec), rows validated by TLC
    (RowsExec.tla); cached per (tree, tier, seed); the facts are attached to C04 (cancel cases) and C08 (failure cases)."""
    import glob
    from common import CACHE, locked, tree_key
    key = tree_key("exec", tier, seed())
    d = os.path.join(CACHE, "exec-" + key)
    with locked(os.path.join(CACHE, "exec-" + key + ".lock")):
        if os.path.exists(os.path.join(d, "result.json")):
            return json.load(open(os.path.join(d, "result.json")))
        shutil.rmtree(d, ignore_errors=True)
        os.makedirs(d)
        t0 = time.time()
        with scratch("verif-exec-") as work:
            copy_specs(work, {"TaskExec.tla", "TaskExecCheck.tla", "TaskExecCheck.cfg", "RowsExec.tla", "RowsExec.cfg"})
            rc, out = tlc(work, "TaskExecCheck.tla", "TaskExecCheck.cfg", workers=1, timeout=300)
            if "No error has been found" not in out:
                raise Infra("TaskExec.tla: a design-level statement does not hold:\n" + out[-2000:])
            probe = build_probe("realprobe", work)
            rf = os.path.join(work, "exec_rows.ndjson")
            rows = []
            reps = 1 if tier == "quick" else 4
            for rep in range(reps):
                env = dict(os.environ, VERIF_TIER=tier, VERIF_SEED=str(seed()), VERIF_ROWS_EXEC=rf + ".part")
                p = run([probe, "-test.run", "TestExec", "-test.count", "1", "-test.timeout", "0"], env=env, timeout=900)
                if p.returncode != 0 or "INFRA" in p.stdout:
                    raise Infra("probe TestExec failed:\n" + p.stdout[-3000:])
                rows += [json.loads(l) for l in open(rf + ".part")]
            open(rf, "w").write("".join(json.dumps(r) + "\n" for r in rows))
            viols = []
            for rnd in range(30):
                rc, out = tlc(work, "RowsExec.tla", "RowsExec.cfg", workers=1, timeout=300)
                if "No error has been found" in out:
                    break
                name = tlc_violation(out)
                if not name:
                    if "Assumption" in out and "is false" in out:
                        raise Infra("the probe did not record every case of TaskExec.tla")
                    raise Infra("TLC row validation failed:\n" + out[-3000:])
                line = int(last_alias_state(out).get("line", "1"))
                lines = open(rf).read().splitlines()
                viols.append([name, json.loads(lines[line - 1])])
                del lines[line - 1]
                open(rf, "w").write("\n".join(lines) + "\n")
                tl = os.path.join(work, "RowsExec.tla")
                txt = "\n".join(x for x in open(tl).read().split("\n") if not x.startswith("ASSUME {"))
                open(tl, "w").write(txt)
        res = {"rows": rows, "viols": viols, "wall_s": round(time.time() - t0, 1)}
        json.dump(res, open(os.path.join(d, "result.json"), "w"), indent=1)
        for o in sorted(glob.glob(os.path.join(CACHE, "exec-*/")), key=os.path.getmtime)[:-6]:
            shutil.rmtree(o, ignore_errors=True)
        return res


def conc_engine(tier):
    """The concurrent probe (8 clients, -race build) and the TLC validation of its rows; cached per (tree, tier, seed) and
    shared by C13 (lock discipline, snapshots, race reports) and the concurrent facts attached to C01 C05 C11 C16."""
    import glob
    from common import CACHE, locked, tree_key
    key = tree_key("conc", tier, seed())
    d = os.path.join(CACHE, "conc-" + key)
    with locked(os.path.join(CACHE, "conc-" + key + ".lock")):
        if os.path.exists(os.path.join(d, "result.json")):
            return json.load(open(os.path.join(d, "result.json")))
        shutil.rmtree(d, ignore_errors=True)
        os.makedirs(d)
        res = _conc_run(tier)
        json.dump(res, open(os.path.join(d, "result.json"), "w"), indent=1)
        for o in sorted(glob.glob(os.path.join(CACHE, "conc-*/")), key=os.path.getmtime)[:-6]:
            shutil.rmtree(o, ignore_errors=True)
        return res


def _conc_run(tier):
    t0 = time.time()
    with scratch("verif-c13-") as work:
        copy_specs(work, {"LockDiscipline.tla", "LockDiscipline.cfg", "LockUndisciplined.cfg", "RowsLock.tla", "RowsLock.cfg"})
        rc, out = tlc(work, "LockDiscipline.tla", "LockDiscipline.cfg", workers=2, timeout=300)
        st = tlc_stats(out)
        if "No error has been found" not in out:
            raise Infra("LockDiscipline.tla check failed:\n" + out[-2000:])
        rc, out2 = tlc(work, "LockDiscipline.tla", "LockUndisciplined.cfg", workers=2, timeout=300)
        if "NoConflict is violated" not in out2:
            raise Infra("negative control (mutation under the read lock) was not rejected")
        probe = build_probe("concprobe", work, race=True)
        env = dict(os.environ, VERIF_TIER=tier, VERIF_SEED=str(seed()), GORACE="halt_on_error=0 history_size=3",
                   VERIF_ROWS_LOCK=os.path.join(work, "lock_rows.ndjson"), VERIF_ROWS_LOCK_SNAP=os.path.join(work, "lock_snap_rows.ndjson"),
                   VERIF_ROWS_LOCK_FACTS=os.path.join(work, "lock_fact_rows.ndjson"))
        p = run([probe, "-test.run", "TestConcurrentClients", "-test.count", "1", "-test.timeout", "0"], env=env, timeout=1500)
        outp = p.stdout or ""
        races = []
        harness_races = 0
        # race reports / runtime faults whose stack contains prunner frames
        for blk in re.split(r"(?=WARNING: DATA RACE)", outp):
            if blk.startswith("WARNING: DATA RACE"):
                blk = blk.split("==================")[0]
                frames = [l.strip() for l in blk.splitlines() if "github.com/Flowpack/prunner" in l]
                # a report counts if, in one of the two racing stacks, the first frame outside the Go runtime / standard library
                # is prunner code (a race inside the harness' own fake runner is the harness' problem)
                own = False
                for stack in re.split(r"\n\n", blk):
                    if not ("by goroutine" in stack or "Previous" in stack or "Read at" in stack or "Write at" in stack):
                        continue
                    sl = stack.splitlines()
                    fr = [(l.strip(), sl[i + 1].strip() if i + 1 < len(sl) else "") for i, l in enumerate(sl) if re.match(r"^  \S+\.\S+\(", l)]
                    fr = [x for x in fr if not re.match(r"^(runtime|sync|sync/atomic|internal/\S+|time|os|io|syscall|context)\.", x[0])]
                    if not fr:
                        continue
                    if "github.com/Flowpack/prunner" in fr[0][0]:
                        own = True
                    elif fr[0][0].startswith("verifharness/concprobe."):
                        # accesses made inside sync primitives (WaitGroup, ...) are reported at their call site, and frames of
                        # inlined callees can be missing: the report is prunner's if the probe's line is a call on the runner
                        mm = re.match(r"^\S*/(conc_test\.go):(\d+)", fr[0][1])
                        if mm:
                            try:
                                src = open(os.path.join(VERIF, "harness", "concprobe", mm.group(1))).read().splitlines()[int(mm.group(2)) - 1]
                            except (OSError, IndexError):
                                src = ""
                            if re.search(r"\bpr\.\w+\(", src):
                                own = True
                                frames = frames or [fr[0][0] + " -> " + src.strip()]
                if frames and own:
                    races.append({"race": True, "kind": "DATA RACE", "frames": frames[:8]})
                elif not own:
                    harness_races += 1
        m = re.search(r"^(fatal error: .*|panic: .*)$", outp, re.M)
        crashed = False
        if m:
            tail = outp[m.start():]
            frames = [l.strip() for l in tail.splitlines() if "github.com/Flowpack/prunner" in l][:8]
            if frames:
                races.append({"race": True, "kind": m.group(1)[:200], "frames": frames})
                crashed = True
        if not crashed and ("VERIF-DONE" not in outp or (p.returncode != 0 and not races)):
            raise Infra("concurrent probe failed:\n" + outp[-3000:])
        with open(os.path.join(work, "lock_race_rows.ndjson"), "w") as f:
            f.write(json.dumps({"race": False, "kind": "summary", "frames": []}) + "\n")
            for r in races:
                f.write(json.dumps(r) + "\n")
        empty = {"site": "none", "mutates": False, "writeHeld": True, "anyHeld": True, "n": 0, "what": "no rows (process died)", "ok": True, "info": "",
                 "prop": "none", "p": "", "a": 0, "b": 0}
        for fn in ("lock_rows.ndjson", "lock_snap_rows.ndjson", "lock_fact_rows.ndjson"):
            pth = os.path.join(work, fn)
            if not os.path.exists(pth) or os.path.getsize(pth) == 0:
                open(pth, "w").write(json.dumps(empty) + "\n")
        lock_rows = [json.loads(l) for l in open(os.path.join(work, "lock_rows.ndjson"))]
        snap_rows = [json.loads(l) for l in open(os.path.join(work, "lock_snap_rows.ndjson"))]
        fact_rows = [json.loads(l) for l in open(os.path.join(work, "lock_fact_rows.ndjson"))]
        viols = []
        files = {"lock": "lock_rows.ndjson", "snap": "lock_snap_rows.ndjson", "race": "lock_race_rows.ndjson", "fact": "lock_fact_rows.ndjson"}
        for rnd in range(40):
            rc, out = tlc(work, "RowsLock.tla", "RowsLock.cfg", workers=1, timeout=600)
            if "No error has been found" in out:
                break
            name = tlc_violation(out)
            if not name:
                raise Infra("TLC row validation failed:\n" + out[-3000:])
            stt = last_alias_state(out)
            kind, line = stt.get("kind", '"lock"').strip('"'), int(stt.get("line", "1"))
            fn = os.path.join(work, files[kind])
            lines = open(fn).read().splitlines()
            viols.append([name, json.loads(lines[line - 1])])
            del lines[line - 1]
            if not lines:
                lines = [json.dumps(empty)]
            open(fn, "w").write("\n".join(lines) + "\n")
    return {"viols": viols, "lock_rows": lock_rows, "snap_rows": snap_rows, "fact_rows": fact_rows, "races": len(races),
            "states": st["distinct"] if st else 1, "transitions": st["generated"] if st else 1, "wall_s": round(time.time() - t0, 1)}


def c13(pid, tier, replay):
    t0 = time.time()
    clean_replays(pid)
    res = conc_engine(tier)
    viols = [(n, r) for n, r in res["viols"] if n.startswith("C13_")]
    lock_rows, snap_rows = res["lock_rows"], res["snap_rows"]
    st = {"distinct": res["states"], "generated": res["transitions"]}
    races = [None] * res["races"]
    reported = []
    seen = set()
    for name, r in viols:
        if name == "C13_LockDiscipline":
            desc = "formula=%s site=%s mutates=%s writeHeld=%s anyHeld=%s" % (name, r["site"], r["mutates"], r["writeHeld"], r["anyHeld"])
        elif name == "C13_NoRaceReport":
            desc = "formula=%s %s at %s" % (name, r["kind"], " <- ".join(x.split("(")[0] for x in r["frames"][:3]))
        else:
            desc = "formula=%s %s (%s)" % (name, r.get("what"), r.get("info"))
        key = desc if name != "C13_ConsistentSnapshots" else r.get("what")
        if key in seen:
            continue
        seen.add(key)
        reported.append((r, write_replay(pid, len(reported) + 1, {"property": pid, "formula": name, "row": r, "desc": desc, "seed": seed()}), desc))
    nacc = sum(r.get("n", 0) for r in lock_rows)
    cov = {"explanation": "LockDiscipline.tla (TLC: discipline => no conflicting concurrent access; mutation under the read lock refuted) is bound to the code "
                          "by lock-mode probes at every access site of PipelineRunner (TryRLock / TryLock from inside the critical section), recorded while "
                          "8 concurrent clients issue seeded random operations; reader snapshots are checked for consistency; the probe binary is a -race "
                          "build and data-race reports / runtime faults with prunner frames are rows too (auxiliary oracle named by the property)",
           "evaluations": nacc, "distinct_nontrivial": len(lock_rows), "rule": "distinct = distinct (site, mutates, lock mode) combinations observed",
           "samples": lock_rows[:3], "states": st["distinct"] if st else 1, "transitions": st["generated"] if st else 1,
           "sites": sorted({r["site"] for r in lock_rows}), "snapshots": snap_rows[0].get("what") if snap_rows else "", "race_reports": len(races)}
    write_evidence(pid, tier, "other", cov, time.time() - t0 + res["wall_s"], violations=len(reported),
                   assumptions=["unsynchronised accesses at sites without a probe are only found by the race detector on the schedules that happened",
                                "TryRLock / TryLock can only err towards 'held'"])
    from checks import known_match
    rc = 0
    for r, path, desc in reported[:8]:
        k = known_match(pid, desc)
        if k:
            print("KNOWN-FINDING: property=%s %s" % (pid, k.get("description", desc)))
            continue
        print("VIOLATION property=%s replay=%s" % (pid, path))
        log("  " + desc[:300])
        rc = 1
    return rc

"""Edge-cover planner: TLC's dump of every transition of a bounded model (Edges_*.tla) -> scripts whose walks traverse
every edge of the quotient graph (states projected to Prunner!CoreState) at least once."""
import collections
import json


class Edges(list):
    """the transitions of one edge dump; .features: the Features constant of the model configuration"""
    features = frozenset()


def parse_edges(out):
    """out: TLC's output as a string or an iterable of lines (an open file).  Every transition is reduced at once to what the
    planner needs (the two states only as canonical keys) - the dumps are hundreds of MB."""
    import hashlib
    vers = None
    edges = Edges()
    feats = frozenset()      # (TLC evaluates the ASSUMEs that print VERS / FEATS before it generates any transition)
    for line in (out.splitlines() if isinstance(out, str) else out):
        if not line.startswith('"'):
            continue
        try:
            s = json.loads(line)
        except ValueError:
            continue
        if s.startswith("VERS "):
            vers = json.loads(s[5:])
        elif s.startswith("FEATS "):
            feats = frozenset(json.loads(s[6:]))
        elif s.startswith("EDGE "):
            e = json.loads(s[5:])
            r = {"from": hashlib.md5(json.dumps(e["from"], sort_keys=True).encode()).hexdigest(),
                 "to": hashlib.md5(json.dumps(e["to"], sort_keys=True).encode()).hexdigest(),
                 "client": e["client"], "step": e["step"] if e["client"] else None, "init": e["init"], "cfg": e["cfg"] if e["init"] else None,
                 "toQuiet": e.get("toQuiet")}
            if "toView" in e:
                r["toViewCanon"] = canon_view(e["toView"], True, "persist" in feats)
                r["toResult"] = result_of(e["toView"]) if e["client"] else None
            edges.append(r)
    edges.features = feats
    return vers, edges


def canon_view(v, model, with_store=True):
    """Canonical string of a ConfView (Prunner.tla) - from the model (TLC's ToJson of ConfView(obs')) or from a recorded
    vocabulary `st` of the real runner (view_of_st below); the two must be equal after every step of a gated script."""
    def le(x):
        return "other" if (model and x == "exit") else x
    jobs = []
    for j in v["jobs"]:
        if not j["listed"]:
            jobs.append(None)
        else:
            jobs.append([j["p"], j["ver"], j["started"], j["completed"], j["canceled"], j["errored"], le(j["lastErr"]),
                         [[t["status"], t["errored"], t["canceled"]] for t in j["tasks"]]])
    # a model configuration without the persist loop does not follow the content of the store
    def same(x):
        return x if model else ("y" if x else "n")
    store = [([s["completed"], s["canceled"], s["started"], same(s["same"])] if s["present"] else None) for s in v["store"]] if with_store else []
    return json.dumps([v["phase"], v["shut"], [[c["def"], c["ver"]] for c in v["cfg"]], [[x["listed"], x["schedulable"], x["running"]] for x in v["pipes"]],
                       jobs, [list(o) for o in v["open"]], store, list(v["logs"])], separators=(",", ":"))


def view_matches(model_view, observed_view):
    """equality of two canonical views; "*" in the model's view (a field the model does not predict) matches anything"""
    if model_view == observed_view:
        return True
    if '"*"' not in model_view:
        return False

    def eq(a, b):
        if a == "*":
            return True
        if isinstance(a, list) and isinstance(b, list):
            return len(a) == len(b) and all(eq(x, y) for x, y in zip(a, b))
        return a == b
    return eq(json.loads(model_view), json.loads(observed_view))


def result_of(v):
    """The reply of the operation (kept in `last` while the goroutine steps after it run): a property of the transition."""
    return "%s/%s/%s" % (v["res"], v["err"], v["new"])


def view_of_st(st):
    """The ConfView of a recorded vocabulary (one trace line of the driver), reduced to the compared fields (a copy: the
    trace line itself is not kept)."""
    return {"phase": st["phase"], "shut": st["shut"],
            "cfg": [{"def": c["def"], "ver": c["ver"] if c["def"] else 0} for c in st["cfg"]],
            "pipes": [{"listed": x["listed"], "schedulable": x["schedulable"], "running": x["running"]} for x in st["pipes"]],
            "jobs": [({"listed": True, "p": j["p"], "ver": j["ver"], "started": j["started"], "completed": j["completed"],
                       "canceled": j["canceled"], "errored": j["errored"], "lastErr": j["lastErr"],
                       "tasks": [{"status": t["status"], "errored": t["errored"], "canceled": t["canceled"]} for t in j["tasks"]]}
                      if j["listed"] else {"listed": False}) for j in st["jobs"]],
            "open": [[r["open"] for r in rs] for rs in st["runs"]],
            "store": [({"present": True, "completed": x["completed"], "canceled": x["canceled"], "started": x["started"], "same": x["same"]}
                       if x["present"] else {"present": False}) for x in st["store"]["jobs"]],
            "logs": list(st["logs"]),
            "res": st["last"]["res"], "err": st["last"]["err"], "new": st["last"]["new"],
            "skip": st["last"]["res"] == "skip", "gated": bool(st.get("conf", {}).get("has")),
            "via": st["last"].get("via", ""), "http": st["last"].get("http", 0)}


def plan(vers, edges, max_len=45, max_scripts=None, expectations=False):
    ids = {}

    def nid(s):
        if s not in ids:
            ids[s] = len(ids)
        return ids[s]

    out = collections.defaultdict(list)   # u -> list of edge indices
    E = []
    init_cfg = {}
    seen = set()
    quiet = {}
    proj = {}
    K = []
    RES = []
    # a model configuration without the persist loop does not follow the content of the store
    with_store = "persist" in getattr(edges, "features", ())
    for e in edges:
        u, v = nid(e["from"]), nid(e["to"])
        if expectations and v not in proj:
            proj[v] = e.get("toViewCanon", "")
            quiet[v] = bool(e.get("toQuiet"))
        key = (u, v, json.dumps(e["step"], sort_keys=True) if e["client"] else "internal")
        if key in seen:
            continue
        seen.add(key)
        E.append((u, v, e["step"] if e["client"] else None))
        RES.append(e.get("toResult") if (expectations and e["client"]) else None)
        out[u].append(len(E) - 1)
        if e["init"]:
            init_cfg[u] = e["cfg"]
    # shortest paths from the init nodes
    parent = {}
    dq = collections.deque()
    for r in init_cfg:
        parent[r] = None
        dq.append(r)
    while dq:
        u = dq.popleft()
        for ei in out[u]:
            v = E[ei][1]
            if v not in parent:
                parent[v] = ei
                dq.append(v)

    def path_to(u):
        p = []
        while parent[u] is not None:
            ei = parent[u]
            p.append(ei)
            u = E[ei][0]
        p.reverse()
        return u, p

    uncovered = set(i for i in range(len(E)) if E[i][0] in parent)
    order = sorted(uncovered)
    scripts = []
    for start in order:
        if start not in uncovered:
            continue
        root, walk = path_to(E[start][0])
        walk = list(walk) + [start]
        cur = E[start][1]
        while len(walk) < max_len:
            nxt = [ei for ei in out[cur] if ei in uncovered and ei not in walk]
            if not nxt:
                break
            # prefer client steps (they make the script longer in a controlled way), then internal ones
            nxt.sort(key=lambda ei: (E[ei][2] is None, ei))
            walk.append(nxt[0])
            cur = E[nxt[0]][1]
        for ei in walk:
            uncovered.discard(ei)
        steps = []
        if expectations and not K:
            K.extend(None if e[2] is None else json.dumps(e[2], sort_keys=True) for e in E)
        for ei in walk:
            if E[ei][2] is None:
                continue
            st = dict(E[ei][2])
            if expectations:
                st["lab"] = K[ei]
            steps.append(st)
        scripts.append({"cfg": init_cfg[root], "steps": steps, "edges": len(walk), "root": root})
        if max_scripts and len(scripts) >= max_scripts:
            break
    stats = {"nodes": len(ids), "edges": len(E), "reachable_edges": len(order), "uncovered": len(uncovered)}
    if expectations:
        # the quotient graph in the form lib/conform.py walks: per node its projection, whether it is quiescent, its
        # goroutine (internal) successors and its successors per client operation
        g = {"with_store": with_store, "proj": proj, "quiet": {n for n in quiet if quiet[n]}, "internal": collections.defaultdict(list), "client": collections.defaultdict(dict)}
        for r in init_cfg:
            g["quiet"].add(r)
            g["proj"].setdefault(r, "")
        for i, (u, v, s) in enumerate(E):
            if s is None:
                g["internal"][u].append(v)
            else:
                g["client"][u].setdefault(K[i], []).append((v, RES[i]))
        g["internal"], g["client"] = dict(g["internal"]), dict(g["client"])
        stats["graph"] = g
    return scripts, stats

"""Engine E7 `binary`: the real prunner binary (cmd/prunner built from /repo) on a loopback port, driven over HTTP with a
JWT minted from the configured secret, under SIGINT / SIGTERM / SIGUSR1 and restarts. Facts are recorded per scenario and
validated by TLC against the table of RowsBin.tla (App.tla is the process-level model checked by TLC)."""
import base64
import glob
import hashlib
import hmac
import json
import os
import shutil
import signal
import socket
import subprocess
import time
import urllib.error
import urllib.request

from common import CACHE, GOENV, Infra, REPO, VERIF, copy_specs, locked, log, run, scratch, seed, tlc, tlc_stats, tree_key
from domain import last_alias_state, tlc_violation

SECRET = "binary-engine-secret-0123456789"


def b64(b):
    return base64.urlsafe_b64encode(b).rstrip(b"=").decode()


def token(secret=SECRET, claims=None):
    h = b64(json.dumps({"alg": "HS256", "typ": "JWT"}).encode())
    c = b64(json.dumps(claims or {"sub": "verif"}).encode())
    s = b64(hmac.new(secret.encode(), (h + "." + c).encode(), hashlib.sha256).digest())
    return h + "." + c + "." + s


def free_port():
    s = socket.socket()
    s.bind(("127.0.0.1", 0))
    p = s.getsockname()[1]
    s.close()
    return p


class Server:
    def __init__(self, binary, root, extra_env=None, flags=()):
        self.root = root
        self.port = free_port()
        self.marker = "VM%d" % self.port
        env = dict(os.environ, PRUNNER_JWT_SECRET=SECRET)
        env.update(extra_env or {})
        self.log = open(os.path.join(root, "server-%d.log" % self.port), "w")
        self.p = subprocess.Popen([binary, "--data", os.path.join(root, "data"), "--path", os.path.join(root, "defs"),
                                   "--address", "127.0.0.1:%d" % self.port, "--config", os.path.join(root, "prunner.yml"),
                                   "--poll-interval", "1h", "--disable-ansi", "--verbose"] + list(flags),
                                  cwd=root, env=env, stdout=self.log, stderr=subprocess.STDOUT)
        deadline = time.time() + 20
        while time.time() < deadline:
            if self.p.poll() is not None:
                raise Infra("prunner binary exited at start: " + open(self.log.name).read()[-1500:])
            try:
                socket.create_connection(("127.0.0.1", self.port), timeout=0.2).close()
                return
            except OSError:
                time.sleep(0.05)
        raise Infra("prunner binary did not listen")

    def req(self, method, path, body=None, tok="valid", cookie=False):
        url = "http://127.0.0.1:%d%s" % (self.port, path)
        data = json.dumps(body).encode() if body is not None else None
        r = urllib.request.Request(url, data=data, method=method)
        if tok == "valid":
            tok = token()
        if tok:
            if cookie:
                r.add_header("Cookie", "jwt=" + tok)
            else:
                r.add_header("Authorization", "Bearer " + tok)
        try:
            with urllib.request.urlopen(r, timeout=20) as resp:
                return resp.status, resp.read().decode(errors="replace")
        except urllib.error.HTTPError as e:
            return e.code, e.read().decode(errors="replace")
        except OSError as e:
            return 0, str(e)

    def schedule(self, pipeline, variables=None, tok="valid"):
        code, body = self.req("POST", "/pipelines/schedule", {"pipeline": pipeline, "variables": variables or {}}, tok=tok)
        jid = None
        if code == 202:
            jid = json.loads(body)["jobId"]
        return code, jid

    def jobs(self):
        code, body = self.req("GET", "/pipelines/jobs")
        return json.loads(body) if code == 200 else None

    def detail(self, jid):
        code, body = self.req("GET", "/job/detail?id=" + jid)
        return code, body

    def wait_job(self, jid, pred, d=30):
        deadline = time.time() + d
        while time.time() < deadline:
            code, body = self.detail(jid)
            if code == 200 and pred(json.loads(body)):
                return json.loads(body)
            time.sleep(0.03)
        return None

    def wait_log(self, text, count, d=10):
        """wait until the server log contains `text` at least `count` times (event based, no fixed sleeps)"""
        deadline = time.time() + d
        while time.time() < deadline:
            self.log.flush()
            if open(self.log.name).read().count(text) >= count:
                return True
            time.sleep(0.03)
        return False

    def wait_exit(self, d):
        try:
            return self.p.wait(timeout=d)
        except subprocess.TimeoutExpired:
            return None

    def kill(self):
        if self.p.poll() is None:
            self.p.kill()
            self.p.wait()
        self.log.close()


def marked(marker):
    n = []
    for e in os.listdir("/proc"):
        if not e.isdigit():
            continue
        try:
            env = open("/proc/%s/environ" % e, "rb").read()
            if marker.encode() not in env:
                continue
            st = open("/proc/%s/stat" % e, "rb").read()
            state = st[st.rindex(b")") + 2:st.rindex(b")") + 3]
            if state not in (b"Z", b"X"):
                n.append(int(e))
        except OSError:
            continue
    return n


def write_defs(root, text, sub="a"):
    d = os.path.join(root, "defs", sub)
    os.makedirs(d, exist_ok=True)
    with open(os.path.join(d, "pipelines.yml"), "w") as f:
        f.write(text)


BASE_DEFS = """pipelines:
  slow:
    concurrency: 1
    env:
      VERIF_MARK: "%(marker)s-slow"
    tasks:
      work:
        script:
          - sleep 0.7
          - echo finished-slow
  long:
    concurrency: 1
    env:
      VERIF_MARK: "%(marker)s-long"
    tasks:
      work:
        script:
          - sh -c 'sleep 60; true'
  failing:
    concurrency: 2
    tasks:
      a:
        script: ["echo before; exit 3"]
      b:
        script: ["echo never"]
        depends_on: [a]
  envp:
    concurrency: 2
    env:
      LVL_TASK: pipe-value
      LVL_PIPE: "pipe value with 'quotes' and $dollar"
    tasks:
      show:
        env:
          LVL_TASK: task-value
        script:
          - printf '<<%%s|%%s|%%s|%%s|%%s>>' "$LVL_TASK" "$LVL_PIPE" "$LVL_PROC" "${LVL_NONE-unset}" "$LVL_DOTENV"
          - printf '<<var=%%s>>' {{ .who }}
"""


def run_scenarios(binary, work, tier):
    rows = []

    def fact(prop, scenario, name, ok, info=""):
        rows.append({"prop": prop, "scenario": scenario, "fact": name, "ok": bool(ok), "info": str(info)[:300]})

    # ------------------------------------------------------------------ sigint / restart / env
    root = os.path.join(work, "r1")
    os.makedirs(root)
    with open(os.path.join(root, ".env"), "w") as f:
        f.write("LVL_DOTENV=from-dotenv-file\n")
    srv = Server(binary, root, extra_env={"LVL_PROC": "proc-value", "LVL_PIPE": "proc-should-lose", "LVL_TASK": "proc-should-lose"}) if False else None
    # definitions need the marker of the server: write them with a fixed marker instead
    marker = "VERIFBIN%d" % os.getpid()
    write_defs(root, BASE_DEFS % {"marker": marker})
    srv = Server(binary, root, extra_env={"LVL_PROC": "proc-value", "LVL_PIPE": "proc-should-lose", "LVL_TASK": "proc-should-lose"})
    try:
        # env (C18)
        c1, e1 = srv.schedule("envp", {"who": "first"})
        c2, e2 = srv.schedule("envp", {"who": "second"})
        d1 = srv.wait_job(e1, lambda j: j["completed"]) if e1 else None
        d2 = srv.wait_job(e2, lambda j: j["completed"]) if e2 else None
        out1 = json.loads(srv.req("GET", "/job/logs?id=%s&task=show" % e1)[1]).get("stdout", "") if d1 else ""
        out2 = json.loads(srv.req("GET", "/job/logs?id=%s&task=show" % e2)[1]).get("stdout", "") if d2 else ""
        parts = out1[2:out1.index(">>")].split("|") if out1.startswith("<<") and ">>" in out1 else ["?"] * 5
        fact("C18", "env", "task-level-wins", parts[0] == "task-value", out1[:120])
        fact("C18", "env", "pipeline-level-over-process", parts[1] == "pipe value with 'quotes' and $dollar", parts[1])
        fact("C18", "env", "process-level-visible", parts[2] == "proc-value", parts[2])
        fact("C18", "env", "undefined-is-unset", parts[3] == "unset", parts[3])
        fact("C18", "env", "dotenv-file-loaded", parts[4] == "from-dotenv-file", parts[4])
        fact("C18", "env", "own-variables-rendered", "<<var=first>>" in out1 and "<<var=second>>" in out2 and "second" not in out1, out1[-40:] + " / " + out2[-40:])
        # a failed job with float variables, finished before the shutdown (for the restart comparison)
        cf, jf = srv.schedule("failing", {"f": 0.1234567891, "tiny": 1e-9, "s": "a\"b\nc", "list": [1, 2.5, {"k": True}]})
        df = srv.wait_job(jf, lambda j: j["completed"]) if jf else None
        before_fail = srv.detail(jf)[1] if jf else ""
        # sigint with a running and a waiting job
        cr, jr = srv.schedule("slow", {"n": 1})
        cw, jw = srv.schedule("slow", {"n": 2})
        srv.wait_job(jr, lambda j: j.get("start") is not None, 10)
        t0 = time.time()
        srv.p.send_signal(signal.SIGINT)
        c503 = None
        late = []     # a request can still be accepted between the signal being sent and the process acting on it
        while time.time() - t0 < 2.0 and srv.p.poll() is None:
            c503, jx = srv.schedule("slow", {"n": 3})
            if c503 == 503:
                break
            if jx:
                late.append(jx)
            time.sleep(0.02)
        last_r = srv.detail(jr)[1]
        last = {}
        while srv.p.poll() is None and time.time() - t0 < 30:
            for jid in [jr, jw, jf, e1, e2] + late:
                c, b = srv.detail(jid)
                if c == 200:
                    last[jid] = json.loads(b)
            time.sleep(0.05)
        rc = srv.wait_exit(1)
        fact("C11", "sigint", "exit-within-deadline", rc is not None, "%.1fs" % (time.time() - t0))
        fact("C11", "sigint", "exit-code-0", rc == 0, rc)
        fact("C11", "sigint", "schedule-during-shutdown-503", c503 == 503, c503)
        st = json.load(open(os.path.join(root, "data", "data.json")))
        sj = {j["ID"]: j for j in st["Jobs"]}
        r_ = sj.get(jr, {})
        fact("C11", "sigint", "running-job-ran-to-its-end", r_.get("Completed") and not r_.get("Canceled") and all(t.get("Status") == "done" for t in r_.get("Tasks", [{}])), json.dumps(r_)[:200])
        w_ = sj.get(jw, {})
        fact("C11", "sigint", "waiting-job-canceled", w_.get("Canceled") and not w_.get("Start"), json.dumps(w_)[:200])
        fact("C11", "sigint", "store-all-terminal", all(j.get("Completed") or j.get("Canceled") for j in st["Jobs"]) and len(st["Jobs"]) == 5 + len(late), len(st["Jobs"]))
        agree = all((jid in sj) and bool(sj[jid].get("Completed")) == bool(v["completed"]) and bool(sj[jid].get("Canceled")) == bool(v["canceled"]) for jid, v in last.items()
                    if v["completed"] or v["canceled"])
        fact("C11", "sigint", "store-equals-last-report", agree and len(last) == 5 + len(late), "")
        time.sleep(0.2)
        fact("C20", "sigint", "no-task-process-left", marked(marker) == [], marked(marker))
    finally:
        srv.kill()
    # ------------------------------------------------------------------ restart on the same data directory
    srv = Server(binary, root, extra_env={"LVL_PROC": "proc-value"})
    try:
        js = srv.jobs()
        ids = {j["id"] for j in js["jobs"]}
        fact("C10", "restart", "all-terminal-after-restart", all(j["completed"] or j["canceled"] for j in js["jobs"]), "")
        fact("C10", "restart", "pipelines-schedulable-not-running", all(p["schedulable"] and not p["running"] for p in js["pipelines"]), json.dumps(js["pipelines"])[:200])
        fact("C10", "restart", "same-job-set", ids == {jr, jw, jf, e1, e2} | set(late), len(ids))
        after_fail = srv.detail(jf)[1]
        fact("C10", "restart", "finished-jobs-identical", after_fail == before_fail and '"lastError"' in after_fail and "0.1234567891" in after_fail,
             "before=%s after=%s" % (before_fail[:150], after_fail[:150]))
        details1 = {i: srv.detail(i)[1] for i in ids}
        srv.p.send_signal(signal.SIGINT)
        srv.wait_exit(10)
    finally:
        srv.kill()
    srv = Server(binary, root, extra_env={"LVL_PROC": "proc-value"})
    try:
        details2 = {i: srv.detail(i)[1] for i in details1}
        fact("C10", "restart", "second-restart-identical", details1 == details2, "")
        # --------------------------------------------------------------- sigterm with a long running job
        cl, jl = srv.schedule("long", {})
        deadline = time.time() + 10
        while time.time() < deadline and len(marked(marker + "-long")) < 2:
            time.sleep(0.03)
        t0 = time.time()
        srv.p.send_signal(signal.SIGTERM)
        # the task would run for 60 s: a forced shutdown ends it within the kill timeout (2 s) and the shutdown poll interval (3 s);
        # the bound is generous so that a loaded machine is not mistaken for a shutdown that waits for the task
        rc = srv.wait_exit(25)
        el = time.time() - t0
        fact("C11", "sigterm", "exit-within-kill-timeout", rc is not None and el < 20, "%.1fs rc=%s" % (el, rc))
        st = json.load(open(os.path.join(root, "data", "data.json")))
        sj = {j["ID"]: j for j in st["Jobs"]}
        l_ = sj.get(jl, {})
        fact("C11", "sigterm", "running-job-canceled", l_.get("Canceled") and l_.get("Completed"), json.dumps(l_)[:200])
        fact("C11", "sigterm", "store-all-terminal", all(j.get("Completed") or j.get("Canceled") for j in st["Jobs"]), "")
        time.sleep(0.3)
        fact("C20", "sigterm", "no-task-process-left", marked(marker) == [], marked(marker))
    finally:
        srv.kill()
        for pid in marked(marker):
            try:
                os.kill(pid, signal.SIGKILL)
            except OSError:
                pass
    # ------------------------------------------------------------------ auth at process level
    root2 = os.path.join(work, "r2")
    os.makedirs(root2)
    write_defs(root2, BASE_DEFS % {"marker": marker + "b"})
    srv = Server(binary, root2)
    try:
        routes = [("GET", "/pipelines/"), ("GET", "/pipelines/jobs"), ("POST", "/pipelines/schedule"), ("GET", "/job/detail?id=00000000-0000-0000-0000-000000000000"),
                  ("GET", "/job/logs?id=00000000-0000-0000-0000-000000000000&task=a"), ("POST", "/job/cancel?id=00000000-0000-0000-0000-000000000000")]
        codes_none = [srv.req(m, p, {"pipeline": "envp"} if "schedule" in p else None, tok=None)[0] for m, p in routes]
        codes_bad = [srv.req(m, p, {"pipeline": "envp"} if "schedule" in p else None, tok=token("some-other-secret-0123456789"))[0] for m, p in routes]
        fact("C14", "auth", "no-token-401-everywhere", all(c == 401 for c in codes_none), codes_none)
        fact("C14", "auth", "wrong-secret-401-everywhere", all(c == 401 for c in codes_bad), codes_bad)
        fact("C14", "auth", "no-effect-without-token", srv.jobs() is not None and srv.jobs()["jobs"] == [], "")
        codes_ok = [srv.req(m, p, {"pipeline": "envp", "variables": {"who": "x"}} if "schedule" in p else None)[0] for m, p in routes[:3]]
        fact("C14", "auth", "valid-token-accepted", all(c in (200, 202) for c in codes_ok) and srv.req("GET", "/pipelines/", cookie=True)[0] == 200, codes_ok)
        fact("C14", "auth", "profiling-absent-by-default", srv.req("GET", "/debug/pprof/", tok=None)[0] == 404, "")
    finally:
        srv.p.send_signal(signal.SIGTERM)
        srv.wait_exit(8)
        srv.kill()
    srv = Server(binary, root2, flags=["--enable-profiling"])
    try:
        fact("C14", "auth", "profiling-open-when-enabled", srv.req("GET", "/debug/pprof/", tok=None)[0] == 200 and srv.req("GET", "/pipelines/", tok=None)[0] == 401, "")
        # -------------------------------------------------------------- reload on SIGUSR1 (C16 / C17)
        defs_v1 = """pipelines:
  rl:
    concurrency: 1
    env:
      KEYA: ""
    tasks:
      t:
        script:
          - sleep 0.5
          - echo version-one $KEYA${KEYB-noB}
"""
        write_defs(root2, defs_v1, sub="b")
        srv.p.send_signal(signal.SIGUSR1)
        srv.wait_log("Definitions changed", 1)
        c1, j1 = srv.schedule("rl")
        fact("C17", "reload", "edit-detected-on-sigusr1", c1 == 202, c1)
        c2, j2 = srv.schedule("rl")
        # same content again: must not count as a change; then an edit that only renames a key with an empty value
        write_defs(root2, defs_v1, sub="b")
        srv.p.send_signal(signal.SIGUSR1)
        if not srv.wait_log("no changes detected", 1, d=6):
            time.sleep(1.0)     # (unknown log vocabulary: give the reload time)
        log1 = open(srv.log.name).read()
        # the two facts that are read off the server's log are only judged if the log speaks the known vocabulary (the edit above
        # did take effect - pipeline rl was accepted - so its message must be there)
        log_vocab = "Definitions changed" in log1 or c1 != 202
        fact("C17", "reload", "unchanged-files-not-reloaded", log1.count("Definitions changed") == 1 or not log_vocab,
             log1.count("Definitions changed") if log_vocab else "log vocabulary not recognised - not judged")
        write_defs(root2, defs_v1.replace('KEYA: ""', 'KEYB: ""').replace("version-one", "version-two"), sub="b")
        srv.p.send_signal(signal.SIGUSR1)
        srv.wait_log("Definitions changed", 2)
        c3, j3 = srv.schedule("rl")
        outs = {}
        for jid in (j1, j2, j3):
            d = srv.wait_job(jid, lambda j: j["completed"], 20) if jid else None
            outs[jid] = json.loads(srv.req("GET", "/job/logs?id=%s&task=t" % jid)[1]).get("stdout", "") if d else "?"
        fact("C16", "reload", "running-job-keeps-old-script", "version-one" in outs.get(j1, ""), outs.get(j1))
        fact("C16", "reload", "waiting-job-keeps-old-script", "version-one" in outs.get(j2, "") and "noB" in outs.get(j2, ""), outs.get(j2))
        fact("C16", "reload", "new-job-uses-new-script", "version-two" in outs.get(j3, ""), outs.get(j3))
        write_defs(root2, defs_v1.replace('KEYA: ""', 'KEYC: ""').replace("version-one", "version-two"), sub="b")
        srv.p.send_signal(signal.SIGUSR1)
        # either it is detected ("Definitions changed") or it is compared and ignored ("no changes detected")
        deadline = time.time() + 10
        while time.time() < deadline:
            lg = open(srv.log.name).read()
            if lg.count("Definitions changed") >= 3 or lg.count("no changes detected") >= 2:
                break
            time.sleep(0.03)
        log2 = open(srv.log.name).read()
        fact("C17", "reload", "empty-value-env-rename-detected", log2.count("Definitions changed") == 3 or not log_vocab,
             log2.count("Definitions changed") if log_vocab else "log vocabulary not recognised - not judged")
        # -------------------------------------------------------------- reloads that change exactly one thing (C16 / C08)
        # every edit below differs from the loaded definitions in one field only; each must take effect for jobs
        # scheduled afterwards (the application only replaces the definitions if it finds them different)
        defs_f = """pipelines:
  one:
    concurrency: 2
    %(cont)s
    tasks:
      bad:
        script:
          - sh -c 'sleep 0.2; exit 1'
      slow:
        script:
          - sleep 0.7
          - echo survived%(extra_line)s
%(extra_task)s"""
        base = {"cont": "continue_running_tasks_after_failure: false", "extra_line": "", "extra_task": ""}

        def reload_and_run(fields, n_changed):
            write_defs(root2, defs_f % fields, sub="c")
            srv.p.send_signal(signal.SIGUSR1)
            srv.wait_log("Definitions changed", n_changed, d=6)
            c, j = srv.schedule("one")
            d = srv.wait_job(j, lambda x: x["completed"], 20) if j else None
            tasks = {t["name"]: t for t in (d or {}).get("tasks", [])}
            out = json.loads(srv.req("GET", "/job/logs?id=%s&task=slow" % j)[1]).get("stdout", "") if d else ""
            return d, tasks, out

        nch = open(srv.log.name).read().count("Definitions changed")
        d0, t0_, o0 = reload_and_run(base, nch + 1)
        fact("C08", "reload_fields", "fail-fast-stops-sibling", d0 is not None and t0_.get("slow", {}).get("status") == "canceled" and "survived" not in o0,
             json.dumps({k: v.get("status") for k, v in t0_.items()}))
        d1, t1_, o1 = reload_and_run(dict(base, cont="continue_running_tasks_after_failure: true"), nch + 2)
        fact("C08", "reload_fields", "continue-flag-alone-takes-effect", d1 is not None and t1_.get("slow", {}).get("status") == "done" and "survived" in o1
             and not d1.get("canceled") and d1.get("lastError"), json.dumps({k: v.get("status") for k, v in t1_.items()}) + " " + str((d1 or {}).get("lastError")))
        f2 = dict(base, cont="continue_running_tasks_after_failure: true", extra_line="\n          - echo appended-line")
        d2, t2_, o2 = reload_and_run(f2, nch + 3)
        fact("C16", "reload_fields", "appended-script-line-alone-takes-effect", d2 is not None and "appended-line" in o2, o2[-60:])
        f3 = dict(f2, extra_task="      added:\n        script: [\"echo added-task\"]\n        depends_on: [slow]\n")
        d3, t3_, o3 = reload_and_run(f3, nch + 4)
        fact("C16", "reload_fields", "added-task-alone-takes-effect", d3 is not None and t3_.get("added", {}).get("status") == "done", sorted(t3_))
    finally:
        srv.p.send_signal(signal.SIGTERM)
        srv.wait_exit(8)
        srv.kill()
    return rows


def engine(tier):
    key = tree_key("bin", tier, seed())
    d = os.path.join(CACHE, "bin-" + key)
    with locked(os.path.join(CACHE, "bin-" + key + ".lock")):
        if os.path.exists(os.path.join(d, "result.json")):
            return json.load(open(os.path.join(d, "result.json")))
        shutil.rmtree(d, ignore_errors=True)
        os.makedirs(d)
        t0 = time.time()
        with scratch("verif-bin-") as work:
            binary = os.path.join(work, "prunner")
            p = run(["go", "build", "-mod=mod", "-o", binary, "./cmd/prunner"], cwd=REPO, env=GOENV, timeout=600)
            if p.returncode != 0:
                raise Infra("building cmd/prunner failed:\n" + p.stdout[-3000:])
            copy_specs(work, {"App.tla", "App.cfg", "RowsBin.tla", "RowsBin.cfg"})
            rc, out = tlc(work, "App.tla", "App.cfg", workers=2, timeout=300)
            st = tlc_stats(out)
            if "No error has been found" not in out:
                raise Infra("App.tla check failed:\n" + out[-2000:])
            rows = run_scenarios(binary, work, tier)
            rf = os.path.join(work, "bin_rows.ndjson")
            open(rf, "w").write("".join(json.dumps(r) + "\n" for r in rows))
            viols = []
            for rnd in range(40):
                rc, out = tlc(work, "RowsBin.tla", "RowsBin.cfg", workers=1, timeout=300)
                if "No error has been found" in out:
                    break
                name = tlc_violation(out)
                if not name:
                    if "Assumption" in out and "is false" in out:
                        raise Infra("binary scenarios did not record every required fact")
                    raise Infra("TLC row validation failed:\n" + out[-2000:])
                line = int(last_alias_state(out).get("line", "1"))
                lines = open(rf).read().splitlines()
                viols.append(json.loads(lines[line - 1]))
                del lines[line - 1]
                open(rf, "w").write("\n".join(lines) + "\n")
                tl = os.path.join(work, "RowsBin.tla")
                txt = "\n".join(x for x in open(tl).read().split("\n") if not x.startswith("ASSUME \\A s"))
                open(tl, "w").write(txt)
        res = {"rows": rows, "violations": viols, "states": st["distinct"] if st else 0, "transitions": st["generated"] if st else 0,
               "wall_s": round(time.time() - t0, 1)}
        json.dump(res, open(os.path.join(d, "result.json"), "w"), indent=1)
        for o in sorted(glob.glob(os.path.join(CACHE, "bin-*/")), key=os.path.getmtime)[:-6]:
            shutil.rmtree(o, ignore_errors=True)
        return res

"""Per-property checks: verdict, replay artefact, evidence."""
import json
import os
import shutil
import time

import common
import e1
from common import EVID, Infra, VERIF, load_known, log, scratch, seed, write_evidence

REGISTRY = {}


def known_match(pid, desc):
    for k in load_known():
        if k.get("property") == pid and k.get("status") == "known" and k.get("fingerprint") and k["fingerprint"] in desc:
            return k
    return None


def script_by_id(d, sid):
    with open(os.path.join(d, "scripts.ndjson")) as f:
        for line in f:
            if '"id": "%s"' % sid in line[:200] or '"id":"%s"' % sid in line[:200]:
                return json.loads(line)
    return None


def trace_lines(trace, sid, upto=None):
    out = []
    with open(trace) as f:
        for line in f:
            if '"sid":"%s"' % sid in line[:80]:
                out.append(json.loads(line))
    return out


def ops_of(script, n=None):
    return " ".join("%s%s" % (s["op"], "(" + ",".join(str(s[k]) for k in ("p", "j", "t", "o", "v", "bad") if k in s) + ")") for s in script["steps"][:n])


def brief_line(l):
    st = l["st"]
    return {"seq": l["seq"], "ev": l["ev"], "now": st["now"], "phase": st["phase"], "last": st["last"],
            "jobs": [{k: j[k] for k in ("p", "ver", "started", "completed", "canceled", "errored", "lastErr", "listed")} | {"tasks": [t["status"] for t in j["tasks"]]} for j in st["jobs"]],
            "runs": [[{k: r[k] for k in ("begun", "open", "outcome")} for r in rr] for rr in st["runs"]],
            "stop": [s["n"] for s in st["stop"]], "ack": [a["n"] for a in st["ack"]], "pipes": st["pipes"]}


def e1_check(pid, tier, replay):
    t0 = time.time()
    names = e1.INVS[pid]
    if replay:
        return e1_replay(pid, replay)
    d = e1.engine(tier)
    res = json.load(open(os.path.join(d, "result.json")))
    with scratch("verif-mon-") as work:
        if res.get("all_clean"):
            # the engine's pass over all traces with every formula (this property's included) found nothing
            viols, nlines = [], res.get("trace_lines", 0)
        else:
            viols, nlines = e1.monitor(res["traces"], names, work)
        reported = []
        known = []
        os.makedirs(os.path.join(EVID, "replay"), exist_ok=True)
        for old in os.listdir(os.path.join(EVID, "replay")):
            if old.startswith(pid + "-"):
                os.unlink(os.path.join(EVID, "replay", old))
        for i, v in enumerate(viols):
            sc = script_by_id(d, v["script"])
            lines = trace_lines(v["trace"], v["script"])
            desc = "formula=%s ops=%s" % (v["formula"], ops_of(sc) if sc else "?")
            k = known_match(pid, desc)
            if k:
                known.append((k, desc))
                continue
            path = os.path.join(EVID, "replay", "%s-%d.json" % (pid, len(reported) + 1))
            with open(path, "w") as f:
                json.dump({"property": pid, "formula": v["formula"], "engine": "e1", "script": sc, "failing_seq": v["seq"],
                           "trace": [brief_line(l) for l in lines if l["seq"] <= v["seq"]][-12:]}, f, indent=1)
            reported.append((v, path))
    mc = res["mc"]
    states = sum(m["states"] for m in mc)
    trans = sum(m["transitions"] for m in mc)
    mc_bad = [m for m in mc if not m["ok"]]
    samples = []
    with open(os.path.join(d, "scripts.ndjson")) as f:
        for i, line in enumerate(f):
            if i in (0, 7, 42):
                sc = json.loads(line)
                samples.append({"script": sc["id"], "src": sc["src"], "init": sc["init"], "ops": ops_of(sc)})
    cov = {
        "states": max(states, 1), "transitions": max(trans, 1),
        "traces_validated_against_impl": res["scripts"],
        "samples": samples,
        "evaluations": res["steps"], "trace_lines_monitored": nlines,
        "formulas": names,
        "model_configs": [{k: m[k] for k in ("config", "ok", "states", "transitions", "wall_s")} for m in mc],
        "model_check_failures": [m["config"] for m in mc_bad],
        "edge_cover": res.get("edge_cover", []),
        "conformance": res.get("conformance", {}),
        "distinct_nontrivial": sum(s.get("edges", 0) for s in res.get("edge_cover", [])),
        "crashes": [{k: c[k] for k in ("script", "kind", "head", "frames")} for c in res["crashes"]],
        "engine_cached_dir": os.path.basename(d),
        "explanation": "TLC checks the formulas on Prunner.tla (states/transitions) and, as run-time monitor, on every line of "
                       "the traces recorded while the TLC-generated scripts ran against the real PipelineRunner under a virtual clock",
        "rule": "a case is one TLC-generated script (sequence of client steps) executed on the real code; every trace line is a monitored state",
    }
    write_evidence(pid, tier, "model_checking", cov, time.time() - t0, violations=len(reported),
                   assumptions=["fake task runner follows the Run/Cancel contract of taskctl.TaskRunner",
                                "client operations are issued at quiescent instants of the virtual clock (engine E3 covers concurrent calls)"])
    for k, desc in known:
        print("KNOWN-FINDING: property=%s %s" % (pid, k.get("description", desc)))
    if mc_bad:
        log("model check failed for", [m["config"] for m in mc_bad], "- this is a defect of the specification, not a verdict")
        log(mc_bad[0]["tail"])
    for v, path in reported[:5]:
        print("VIOLATION property=%s replay=%s" % (pid, path))
        log("  formula %s false at line %d of script %s" % (v["formula"], v["seq"], v["script"]))
    if len(reported) > 5:
        log("  ... and %d more violating scripts (replay files written)" % (len(reported) - 5))
    byf = {}
    for v, _ in reported:
        byf[v["formula"]] = byf.get(v["formula"], 0) + 1
    if byf:
        log("  violations by formula:", byf)
    if reported:
        return 1
    if mc_bad:
        return 2
    return 0


def e1_replay(pid, path):
    rp = json.load(open(path))
    sc = rp["script"]
    with scratch("verif-replay-") as work:
        driver = e1.build_driver(work)
        traces, crashes = e1.execute(driver, [sc], work, shards=1)
        viols, n = e1.monitor(traces, e1.INVS[pid], work)
        for c in crashes:
            log("crash:", c["head"], c["frames"][:3])
        if viols:
            v = viols[0]
            print("VIOLATION property=%s replay=%s" % (pid, path))
            log("  formula %s false at line %d" % (v["formula"], v["seq"]))
            for l in trace_lines(v["trace"], v["script"]):
                if l["seq"] <= v["seq"]:
                    log(json.dumps(brief_line(l)))
            return 1
    log("replay: property holds on this script")
    return 0


for _p in e1.INVS:
    REGISTRY[_p] = e1_check

import domain
REGISTRY["C17"] = domain.c17
REGISTRY["C14"] = domain.c14
import store_engine
REGISTRY["C09"] = store_engine.c09
REGISTRY["C18"] = domain.c18
REGISTRY["C19"] = domain.c19
REGISTRY["C20"] = domain.c20
REGISTRY["C13"] = domain.c13


# ---------------------------------------------------------------------------------------------------------------
# the real binary (engine E7) contributes process-level facts to these properties
import binary_engine

BIN_PROPS = {"C08", "C10", "C11", "C14", "C16", "C17", "C18", "C20"}


def with_binary(fn):
    def wrapped(pid, tier, replay):
        rc = fn(pid, tier, replay)
        if replay or rc == 2:
            return rc
        t0 = time.time()
        res = binary_engine.engine(tier)
        mine = [r for r in res["rows"] if r["prop"] == pid]
        bad = [r for r in res["violations"] if r["prop"] == pid]
        # extend the evidence written by the main check
        ep = os.path.join(EVID, pid + ".json")
        ev = json.load(open(ep))
        ev["coverage"]["binary_facts"] = {"recorded": len(mine), "failed": len(bad), "scenarios": sorted({r["scenario"] for r in mine}),
                                          "model": "App.tla (%d states)" % res.get("states", 0), "sample": mine[:2]}
        ev["violations"] = ev.get("violations", 0) + len(bad)
        ev["wall_s"] = round(ev.get("wall_s", 0) + (time.time() - t0), 2)
        json.dump(ev, open(ep, "w"), indent=1)
        n0 = len([f for f in os.listdir(os.path.join(EVID, "replay")) if f.startswith(pid + "-")]) if os.path.isdir(os.path.join(EVID, "replay")) else 0
        for i, r in enumerate(bad):
            desc = "formula=%s_Binary scenario=%s fact=%s info=%s" % (pid, r["scenario"], r["fact"], r["info"])
            k = known_match(pid, desc)
            if k:
                print("KNOWN-FINDING: property=%s %s" % (pid, k.get("description", desc)))
                continue
            os.makedirs(os.path.join(EVID, "replay"), exist_ok=True)
            path = os.path.join(EVID, "replay", "%s-%d.json" % (pid, n0 + i + 1))
            json.dump({"property": pid, "engine": "binary", "row": r, "desc": desc}, open(path, "w"), indent=1)
            print("VIOLATION property=%s replay=%s" % (pid, path))
            log("  " + desc[:300])
            rc = 1
        return rc
    return wrapped


for _p in BIN_PROPS:
    REGISTRY[_p] = with_binary(REGISTRY[_p])

# facts observed by truly concurrent clients (harness/concprobe, RowsLock.tla) that must hold for every interleaving
CONC_PROPS = {"C01", "C05", "C06", "C07", "C08", "C11", "C16"}


def with_conc(fn):
    def wrapped(pid, tier, replay):
        rc = fn(pid, tier, replay)
        if replay or rc == 2:
            return rc
        t0 = time.time()
        res = domain.conc_engine(tier)
        mine = [r for r in res["fact_rows"] if r.get("prop") == pid]
        bad = [(n, r) for n, r in res["viols"] if n.startswith(pid + "_")]
        ep = os.path.join(EVID, pid + ".json")
        ev = json.load(open(ep))
        ev["coverage"]["concurrent_facts"] = {"distinct": len(mine), "observations": sum(r.get("n", 0) for r in mine), "failed": len(bad),
                                              "sample": mine[:2], "how": "8 concurrent clients against one runner (-race build); order of the critical "
                                              "sections from the lock probes; rows validated by TLC (RowsLock.tla)"}
        ev["violations"] = ev.get("violations", 0) + len(bad)
        ev["wall_s"] = round(ev.get("wall_s", 0) + (time.time() - t0), 2)
        json.dump(ev, open(ep, "w"), indent=1)
        n0 = len([f for f in os.listdir(os.path.join(EVID, "replay")) if f.startswith(pid + "-")]) if os.path.isdir(os.path.join(EVID, "replay")) else 0
        seen = set()
        for name, r in bad:
            desc = "formula=%s %s pipeline=%s a=%s b=%s" % (name, r.get("what"), r.get("p"), r.get("a"), r.get("b"))
            keyd = (name, r.get("what"))
            if keyd in seen:
                continue
            seen.add(keyd)
            k = known_match(pid, desc)
            if k:
                print("KNOWN-FINDING: property=%s %s" % (pid, k.get("description", desc)))
                continue
            os.makedirs(os.path.join(EVID, "replay"), exist_ok=True)
            path = os.path.join(EVID, "replay", "%s-%d.json" % (pid, n0 + len(seen)))
            json.dump({"property": pid, "engine": "conc", "formula": name, "row": r, "desc": desc, "seed": seed()}, open(path, "w"), indent=1)
            print("VIOLATION property=%s replay=%s" % (pid, path))
            log("  " + desc[:300])
            rc = 1
        return rc
    return wrapped


for _p in CONC_PROPS:
    REGISTRY[_p] = with_conc(REGISTRY[_p])

# the real task runner on every case of TaskExec.tla (real processes): cancel cases -> C04, failure cases -> C08
EXEC_PROPS = {"C04": "C04_RealCancel", "C08": "C08_RealVerdict"}


def with_exec(fn):
    def wrapped(pid, tier, replay):
        rc = fn(pid, tier, replay)
        if replay or rc == 2:
            return rc
        t0 = time.time()
        res = domain.exec_engine(tier)
        mine = [r for r in res["rows"] if (r["cancelAt"] > 0) == (pid == "C04")]
        bad = [(n, r) for n, r in res["viols"] if n == EXEC_PROPS[pid]]
        ep = os.path.join(EVID, pid + ".json")
        ev = json.load(open(ep))
        ev["coverage"]["real_task_runner"] = {"cases_run": len(mine), "failed": len(bad), "sample": mine[:1],
                                              "how": "TaskExec.tla enumerates the cases of a two-line task (line outcomes, allow_failure, cancel while "
                                                     "line 1/2 runs, dependent task); each is run with real processes by the real TaskRunner under the real "
                                                     "PipelineRunner and the reported result is validated by TLC against Expected (RowsExec.tla)"}
        ev["violations"] = ev.get("violations", 0) + len(bad)
        ev["wall_s"] = round(ev.get("wall_s", 0) + (time.time() - t0), 2)
        json.dump(ev, open(ep, "w"), indent=1)
        n0 = len([f for f in os.listdir(os.path.join(EVID, "replay")) if f.startswith(pid + "-")]) if os.path.isdir(os.path.join(EVID, "replay")) else 0
        seen = set()
        for name, r in bad:
            case = "allow=%s o1=%s o2=%s cancelAt=%s dep=%s" % (r["allow"], r["o1"], r["o2"], r["cancelAt"], r["dep"])
            desc = "formula=%s %s reported: status=%s errored=%s canceled=%s job completed=%s canceled=%s lastErr=%s ran=%s/%s next=%s" % (
                name, case, r["status"], r["errored"], r["canceled"], r["jobCompleted"], r["jobCanceled"], r["lastErr"], r["ran1"], r["ran2"], r["nextRan"])
            if case in seen:
                continue
            seen.add(case)
            k = known_match(pid, desc)
            if k:
                print("KNOWN-FINDING: property=%s %s" % (pid, k.get("description", desc)))
                continue
            if len(seen) > 6:
                continue
            os.makedirs(os.path.join(EVID, "replay"), exist_ok=True)
            path = os.path.join(EVID, "replay", "%s-%d.json" % (pid, n0 + len(seen)))
            json.dump({"property": pid, "engine": "exec", "formula": name, "row": r, "desc": desc}, open(path, "w"), indent=1)
            print("VIOLATION property=%s replay=%s" % (pid, path))
            log("  " + desc[:300])
            rc = 1
        return rc
    return wrapped


for _p in EXEC_PROPS:
    REGISTRY[_p] = with_exec(REGISTRY[_p])

"""Strict conformance of the real runner with Prunner.tla on the gated edge-cover scripts.

TLC dumps every transition of a bounded configuration of Prunner.tla (Edges_*.tla); lib/planner.py turns the quotient of
that graph by Prunner!CoreState into scripts.  The driver executes a gated script one model step at a time (the scheduler
loops are parked at the poll gate, one iteration per `poll` step; ticks are 600 ms, the loop's pause 1 ms) and records the
full vocabulary at the quiescent moment after every step.  This module decides whether the sequence of views (ConfView of
Prunner.tla, computed from the recorded vocabulary by planner.view_of_st) and replies is a behaviour of the specification:

    belief_0     = { initial node }
    belief_(k+1) = { quiescent n' : n in belief_k, n --op_k, reply_k--> m, m ==goroutine steps==> n', view(n') = observed_(k+1) }

The real runner resolves its own races (which stage goroutine assigns the scheduler's last error last, in which order a
pass visits the stages, ...), which the model has as nondeterminism, so the set of model states the runner may be in is
tracked rather than the single path the script was planned along.  An empty belief is a *drift*: the code did something the
specification does not allow (or the other way round).  Drift is reported in the evidence and on stderr; it is not a
verdict on a property (the property monitors decide those) - see DESIGN.md 0.2.
"""
import collections
import json
import pickle

import planner


def _closure(g, todo):
    out, seen = set(), set()
    todo = list(todo)
    while todo:
        n = todo.pop()
        if n in seen:
            continue
        seen.add(n)
        if n in g["quiet"]:
            out.add(n)
            continue
        todo.extend(g["internal"].get(n, ()))
    return out


def validate_script(g, script, op_lines):
    """op_lines: the trace lines of the client steps (ev.k "Op" or "Restart") of this script, in order.  Returns (steps_compared, drift or None, lost)."""
    steps = [s for s in script["steps"] if s["op"] != "drain"]
    if len(op_lines) < len(steps):
        return 0, None, "trace has %d op lines for %d steps" % (len(op_lines), len(steps))
    belief = {script["root"]}
    compared = 0
    for k, s in enumerate(steps):
        ov = op_lines[k]              # the compact view of the line (planner.view_of_st)
        lab = s.get("lab")
        if lab is None or not ov["gated"]:
            return compared, None, "step %d carries no label/projection" % k
        skipped = ov["skip"]
        belief0 = belief
        nxt, enabled_somewhere = [], False
        obs_res = planner.result_of(ov)
        for n in belief:
            succ = g["client"].get(n, {}).get(lab)
            if succ:
                enabled_somewhere = True
                if not skipped:
                    # the reply of the operation must be the one of the model transition
                    nxt.extend(v for v, res in succ if res is None or res == obs_res)
            elif skipped or s["op"] == "adv":
                nxt.append(n)        # not enabled in the model here: the driver skipped it / time passes without effect
        if not skipped and not enabled_somewhere and s["op"] != "adv":
            # the runner took a branch of its own nondeterminism on which the planned step does not exist in the bounded model
            return compared, None, "step %d (%s) not enabled in any candidate state" % (k, s["op"])
        cand = _closure(g, nxt)
        obs = planner.canon_view(ov, False, g.get("with_store", True))
        belief = {n for n in cand if planner.view_matches(g["proj"].get(n, ""), obs)}
        compared += 1
        if not belief:
            return compared, {"sid": script["id"], "step": k, "op": {x: s[x] for x in s if x != "lab"}, "skipped": skipped,
                              "observed": obs_res + " " + obs, "allowed": sorted({g["proj"].get(n, "") for n in cand})[:4],
                              "allowed_replies": sorted({str(res) for n in belief0 for v, res in g["client"].get(n, {}).get(lab, [])})[:6]}, None
    return compared, None, None


def op_lines(trace_files, sids):
    """the trace lines of the client steps (ev.k "Op" / "Restart") of the given scripts, in order, per script id"""
    ops = collections.defaultdict(list)
    for tf in trace_files:
        try:
            f = open(tf)
        except OSError:
            continue
        with f:
            for line in f:
                if '"k":"Op"' not in line and '"k":"Restart"' not in line:
                    continue
                r = json.loads(line)
                if r["sid"] in sids and r["ev"]["k"] in ("Op", "Restart"):
                    ops[r["sid"]].append(planner.view_of_st(r["st"]))     # only the compared fields are kept
    return ops


def validate(work, scripts, ops):
    """Validate all gated edge-cover scripts; ops: op_lines() of the trace files. Returns a summary dict."""
    by_id = {s["id"]: s for s in scripts if s.get("gated") and "root" in s}
    graphs = {}
    res = {"scripts": 0, "steps_compared": 0, "drift": [], "lost_track": 0, "not_run": 0}
    for sid, sc in by_id.items():
        if sid not in ops:
            res["not_run"] += 1
            continue
        tag = sc["graph"]
        if tag not in graphs:
            with open("%s/graph-%s.pickle" % (work, tag), "rb") as f:
                graphs[tag] = pickle.load(f)
        n, drift, lost = validate_script(graphs[tag], sc, ops[sid])
        res["scripts"] += 1
        res["steps_compared"] += n
        if drift:
            res["drift"].append(drift)
        if lost:
            res["lost_track"] += 1
    return res

package authprobe

// Probe for Secret.tla: every combination of a command-line secret (absent / too short / valid) and a config file
// (absent / malformed / without a secret / too short / valid) through the real config.LoadOrCreateConfig.

import (
	"encoding/json"
	"os"
	"path/filepath"
	"strings"
	"testing"

	"github.com/apex/log"
	"github.com/apex/log/handlers/discard"

	"github.com/Flowpack/prunner/config"
)

type secretRow struct {
	Cli             string `json:"cli"`
	File            string `json:"file"`
	Source          string `json:"source"` // cli | file | generated | error
	Created         bool   `json:"created"`
	SecretLen       int    `json:"secretLen"`
	FileHoldsSecret bool   `json:"fileHoldsSecret"`
}

func TestSecretConfig(t *testing.T) {
	out := os.Getenv("VERIF_ROWS_SECRET")
	if out == "" {
		t.Skip("VERIF_ROWS_SECRET not set")
	}
	log.SetHandler(discard.Default)
	f, err := os.Create(out)
	if err != nil {
		t.Fatal(err)
	}
	defer f.Close()
	enc := json.NewEncoder(f)
	cliSecrets := map[string]string{"absent": "", "short": "too-short", "valid": "0123456789abcdef-from-cli"}
	fileBodies := map[string]string{
		"malformed": "jwt_secret: [unterminated\n",
		"empty":     "other_key: 1\n",
		"short":     "jwt_secret: short\n",
		"valid":     "jwt_secret: fedcba9876543210-from-file\n",
	}
	for _, cli := range []string{"absent", "short", "valid"} {
		for _, file := range []string{"absent", "malformed", "empty", "short", "valid"} {
			dir := t.TempDir()
			path := filepath.Join(dir, ".prunner.yml")
			if file != "absent" {
				if err := os.WriteFile(path, []byte(fileBodies[file]), 0o600); err != nil {
					t.Fatal(err)
				}
			}
			before, _ := os.ReadFile(path)
			c, err := config.LoadOrCreateConfig(path, config.Config{JWTSecret: cliSecrets[cli]})
			after, aerr := os.ReadFile(path)
			row := secretRow{Cli: cli, File: file}
			row.Created = file == "absent" && aerr == nil
			if file != "absent" && string(before) != string(after) {
				row.Created = true // an existing file was rewritten
			}
			switch {
			case err != nil || c == nil:
				row.Source = "error"
			case c.JWTSecret == cliSecrets[cli] && cli != "absent":
				row.Source = "cli"
			case file == "valid" && c.JWTSecret == "fedcba9876543210-from-file", file == "short" && c.JWTSecret == "short":
				row.Source = "file"
			default:
				row.Source = "generated"
			}
			if c != nil && err == nil {
				row.SecretLen = len(c.JWTSecret)
				row.FileHoldsSecret = aerr == nil && strings.Contains(string(after), c.JWTSecret)
			}
			_ = enc.Encode(row)
		}
	}
}

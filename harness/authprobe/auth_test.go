package authprobe

// Probe for C14: one real request per row of Routes x Creds x Transports x Profiling against the real
// http.Handler of server.NewServer, with a runner that holds running, waiting and finished jobs.
// Routes are discovered from the router (verif-tagged accessor). Rows are validated by TLC (AuthTrace.tla).

import (
	"bytes"
	"context"
	"crypto/hmac"
	"crypto/sha256"
	"crypto/sha512"
	"encoding/base64"
	"encoding/json"
	"fmt"
	"hash"
	"net/http"
	"net/http/httptest"
	"os"
	"sort"
	"strings"
	"sync"
	"testing"
	"time"

	"github.com/apex/log"
	"github.com/apex/log/handlers/discard"
	"github.com/go-chi/chi/v5"
	"github.com/go-chi/jwtauth/v5"
	"github.com/taskctl/taskctl/pkg/task"

	"github.com/Flowpack/prunner"
	"github.com/Flowpack/prunner/definition"
	"github.com/Flowpack/prunner/server"
	"github.com/Flowpack/prunner/taskctl"
)

const secret = "the-configured-secret-0123456789"

// ---- a minimal blocking runner ----

type blockRunner struct {
	mu       sync.Mutex
	onChange func(t *task.Task)
	ctx      context.Context
	cancel   context.CancelFunc
	cancels  *int
	block    bool
	store    taskctl.OutputStore
	jobID    string
}

func (b *blockRunner) SetOnTaskChange(f func(t *task.Task)) { b.onChange = f }
func (b *blockRunner) Run(t *task.Task) error {
	t.Start = time.Now()
	b.onChange(t)
	if w, err := b.store.Writer(b.jobID, t.Name, "stdout"); err == nil {
		_, _ = w.Write([]byte("LEAKMARK-output\n"))
		_ = w.Close()
	}
	if b.block {
		<-b.ctx.Done()
		t.Errored, t.Error = true, context.Canceled
		b.onChange(t)
		return context.Canceled
	}
	t.End = time.Now()
	b.onChange(t)
	return nil
}
func (b *blockRunner) Cancel() {
	b.mu.Lock()
	*b.cancels++
	b.mu.Unlock()
	b.cancel()
}
func (b *blockRunner) Finish() {}

// ---- tokens ----

func b64(b []byte) string { return base64.RawURLEncoding.EncodeToString(b) }

func mkToken(alg string, claims map[string]interface{}, key string, h func() hash.Hash, sign bool) string {
	hd, _ := json.Marshal(map[string]string{"alg": alg, "typ": "JWT"})
	cl, _ := json.Marshal(claims)
	si := b64(hd) + "." + b64(cl)
	if !sign {
		return si + "."
	}
	m := hmac.New(h, []byte(key))
	m.Write([]byte(si))
	return si + "." + b64(m.Sum(nil))
}

func creds() map[string]string {
	now := time.Now()
	v := mkToken("HS256", map[string]interface{}{"x": 1}, secret, sha256.New, true)
	c := map[string]string{
		"none":          "",
		"empty":         "",
		"garbage":       "abc.def",
		"truncated":     v[:len(v)-6],
		"wrongsecret":   mkToken("HS256", map[string]interface{}{"x": 1}, "another-secret-0123456789abcdef", sha256.New, true),
		"algnone":       mkToken("none", map[string]interface{}{"x": 1}, "", sha256.New, false),
		"algnone_nosig": strings.TrimSuffix(mkToken("none", map[string]interface{}{"x": 1}, "", sha256.New, false), "."),
		"hs384":         mkToken("HS384", map[string]interface{}{"x": 1}, secret, sha512.New384, true),
		"hs512":         mkToken("HS512", map[string]interface{}{"x": 1}, secret, sha512.New, true),
		"expired":       mkToken("HS256", map[string]interface{}{"exp": now.Add(-time.Hour).Unix()}, secret, sha256.New, true),
		"nbf_future":    mkToken("HS256", map[string]interface{}{"nbf": now.Add(time.Hour).Unix()}, secret, sha256.New, true),
		"iat_future":    mkToken("HS256", map[string]interface{}{"iat": now.Add(time.Hour).Unix()}, secret, sha256.New, true),
		"valid":         v,
		"valid_exp":     mkToken("HS256", map[string]interface{}{"exp": now.Add(time.Hour).Unix(), "nbf": now.Add(-time.Hour).Unix()}, secret, sha256.New, true),
		"valid_sub":     mkToken("HS256", map[string]interface{}{"sub": "j.doe"}, secret, sha256.New, true),
	}
	return c
}

var validNames = map[string]bool{"valid": true, "valid_exp": true, "valid_sub": true}

type row struct {
	Route      string `json:"route"`
	Method     string `json:"method"`
	Kind       string `json:"kind"`
	Registered bool   `json:"registered"`
	Cred       string `json:"cred"`
	Transport  string `json:"transport"`
	Profiling  bool   `json:"profiling"`
	Status     int    `json:"status"`
	Leak       bool   `json:"leak"`
	Changed    bool   `json:"changed"`
	URL        string `json:"url"`
}

type fixture struct {
	pr      *prunner.PipelineRunner
	handler http.Handler
	routes  [][2]string
	cancels int
	running string
	done    string
	marks   []string
}

func newFixture(t *testing.T, profiling bool) *fixture {
	fx := &fixture{}
	one := 1
	defs := &definition.PipelinesDef{Pipelines: map[string]definition.PipelineDef{
		"secretpipe": {Concurrency: 1, QueueLimit: nil, Tasks: map[string]definition.TaskDef{"a": {Script: []string{"echo"}}}, SourcePath: "x"},
		"secretfast": {Concurrency: 3, QueueLimit: &one, Tasks: map[string]definition.TaskDef{"a": {Script: []string{"echo"}}}, SourcePath: "x"},
	}}
	ostore, err := taskctl.NewOutputStore(t.TempDir())
	if err != nil {
		t.Fatal(err)
	}
	pr, err := prunner.NewPipelineRunner(context.Background(), defs, func(j *prunner.PipelineJob) taskctl.Runner {
		ctx, cancel := context.WithCancel(context.Background())
		return &blockRunner{ctx: ctx, cancel: cancel, cancels: &fx.cancels, block: j.Pipeline == "secretpipe", store: ostore, jobID: j.ID.String()}
	}, nil, ostore)
	if err != nil {
		t.Fatal(err)
	}
	fx.pr = pr
	auth := jwtauth.New("HS256", []byte(secret), nil)
	srv := server.NewServer(pr, ostore, func(h http.Handler) http.Handler { return h }, auth, profiling)
	fx.handler = srv
	rt, ok := interface{}(srv).(interface{ VerifRoutes() chi.Routes })
	if !ok {
		t.Fatal("server has no VerifRoutes (build with -tags verif)")
	}
	_ = chi.Walk(rt.VerifRoutes(), func(method, route string, h http.Handler, mw ...func(http.Handler) http.Handler) error {
		fx.routes = append(fx.routes, [2]string{method, route})
		return nil
	})
	j1, err := pr.ScheduleAsync("secretpipe", prunner.ScheduleOpts{Variables: map[string]interface{}{"v": "VARMARK-1"}, User: "USERMARK"})
	if err != nil {
		t.Fatal(err)
	}
	if _, err = pr.ScheduleAsync("secretpipe", prunner.ScheduleOpts{Variables: map[string]interface{}{"v": "VARMARK-2"}}); err != nil {
		t.Fatal(err)
	}
	j3, err := pr.ScheduleAsync("secretfast", prunner.ScheduleOpts{})
	if err != nil {
		t.Fatal(err)
	}
	fx.running, fx.done = j1.ID.String(), j3.ID.String()
	deadline := time.Now().Add(10 * time.Second)
	for {
		ok := false
		_ = pr.ReadJob(j3.ID, func(j *prunner.PipelineJob) { ok = j.Completed })
		if ok {
			break
		}
		if time.Now().After(deadline) {
			t.Fatal("fixture job did not complete")
		}
		time.Sleep(10 * time.Millisecond)
	}
	fx.marks = []string{"LEAKMARK", "VARMARK", "USERMARK", "secretpipe", "secretfast"}
	pr.IterateJobs(func(j *prunner.PipelineJob) { fx.marks = append(fx.marks, j.ID.String()) })
	return fx
}

func (fx *fixture) digest() string {
	var parts []string
	fx.pr.IterateJobs(func(j *prunner.PipelineJob) {
		parts = append(parts, fmt.Sprintf("%s/%v/%v/%v", j.ID, j.Start != nil, j.Completed, j.Canceled))
	})
	sort.Strings(parts)
	return fmt.Sprintf("%d|%s", fx.cancels, strings.Join(parts, ","))
}

func (fx *fixture) url(route string) (string, []byte) {
	switch {
	case strings.HasPrefix(route, "/job/logs"):
		return route + "?id=" + fx.done + "&task=a", nil
	case strings.HasPrefix(route, "/job/"):
		return route + "?id=" + fx.running + "&task=a", nil
	case strings.HasPrefix(route, "/pipelines/schedule"):
		b, _ := json.Marshal(map[string]interface{}{"pipeline": "secretfast", "variables": map[string]interface{}{"k": 1}})
		return route, b
	}
	return route, nil
}

func (fx *fixture) do(method, route, credName, tok, transport string) row {
	u, body := fx.url(route)
	before := fx.digest()
	req := httptest.NewRequest(method, u, bytes.NewReader(body))
	if credName != "none" {
		switch transport {
		case "header":
			req.Header.Set("Authorization", "Bearer "+tok)
		case "header_lc":
			req.Header.Set("authorization", "bearer "+tok)
		case "cookie":
			req.AddCookie(&http.Cookie{Name: "jwt", Value: tok})
		}
	}
	rec := httptest.NewRecorder()
	fx.handler.ServeHTTP(rec, req)
	time.Sleep(3 * time.Millisecond) // an accepted cancel / schedule acts asynchronously
	after := fx.digest()
	leak := false
	rb := rec.Body.String()
	for _, m := range fx.marks {
		if strings.Contains(rb, m) {
			leak = true
		}
	}
	return row{Route: route, Method: method, Status: rec.Code, Leak: leak, Changed: before != after, URL: u}
}

func TestAuthTable(t *testing.T) {
	outp := os.Getenv("VERIF_ROWS_AUTH")
	if outp == "" {
		t.Skip("VERIF_ROWS_AUTH not set")
	}
	log.SetHandler(discard.Default)
	of, err := os.Create(outp)
	if err != nil {
		t.Fatal(err)
	}
	defer of.Close()
	enc := json.NewEncoder(of)
	cr := creds()
	names := make([]string, 0, len(cr))
	for n := range cr {
		names = append(names, n)
	}
	sort.Strings(names)
	transports := []string{"header", "header_lc", "cookie"}
	n := 0
	for _, profiling := range []bool{false, true} {
		fx := newFixture(t, profiling)
		emit := func(r row, kind string, registered bool, cred, tr string) {
			r.Kind, r.Registered, r.Cred, r.Transport, r.Profiling = kind, registered, cred, tr, profiling
			if err := enc.Encode(&r); err != nil {
				t.Fatal(err)
			}
			n++
		}
		// invalid credentials first (they must not change anything), valid ones last
		for pass := 0; pass < 2; pass++ {
			for _, name := range names {
				if validNames[name] != (pass == 1) {
					continue
				}
				for _, tr := range transports {
					if name == "none" && tr != "header" {
						continue
					}
					for _, mr := range fx.routes {
						method, route := mr[0], mr[1]
						if strings.HasPrefix(route, "/debug") {
							continue
						}
						emit(fx.do(method, route, name, cr[name], tr), "api", true, name, tr)
						// the same path with the other method, and a sibling path that is not registered
						other := "GET"
						if method == "GET" {
							other = "POST"
						}
						emit(fx.do(other, route, name, cr[name], tr), "other", false, name, tr)
					}
					emit(fx.do("GET", "/pipelines/unknown", name, cr[name], tr), "other", false, name, tr)
					emit(fx.do("GET", "/job/unknown", name, cr[name], tr), "other", false, name, tr)
					for _, dp := range []string{"/debug/pprof/", "/debug/pprof/cmdline", "/debug/vars", "/debug/pprof/goroutine?debug=1", "/debug"} {
						emit(fx.do("GET", dp, name, cr[name], tr), "debug", false, name, tr)
					}
				}
			}
		}
	}
	fmt.Fprintf(os.Stderr, "VERIF-DONE %d\n", n)
}

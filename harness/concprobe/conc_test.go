package concprobe

// Probe for C13: N concurrent clients issue seeded random operations against one real PipelineRunner whose jobs are
// executed by a quick self-completing runner. Built with -race by the orchestrator. Records
//  - the lock-mode probes of every access site (hook, build tag verif),
//  - snapshots taken by readers under the read lock (consistent state),
//  - facts that hold for every interleaving (rows with a property id): running jobs per pipeline and waiting jobs per
//    pipeline in every snapshot (C01, C05); with the order of the critical sections taken from the probes: no request is
//    accepted in a critical section after the one in which Shutdown began (C11), a job is built from the definitions
//    installed by the last ReplaceDefinitions critical section before its own (C16), nothing is left non-terminal
//    when Shutdown has returned (C11),
// the race detector's reports are collected from the process output by the orchestrator.

import (
	"context"
	"errors"
	"encoding/json"
	"fmt"
	"io"
	"math/rand"
	"os"
	"runtime"
	"sort"
	"strconv"
	"strings"
	"sync"
	"testing"
	"time"

	"github.com/apex/log"
	"github.com/apex/log/handlers/discard"
	"github.com/gofrs/uuid"
	"github.com/taskctl/taskctl/pkg/task"
	"github.com/taskctl/taskctl/pkg/variables"

	"github.com/Flowpack/prunner"
	"github.com/Flowpack/prunner/definition"
	"github.com/Flowpack/prunner/store"
	"github.com/Flowpack/prunner/taskctl"
)

type quickRunner struct {
	onChange func(t *task.Task)
	ctx      context.Context
	cancel   context.CancelFunc
	mu       sync.Mutex
	cond     *sync.Cond
	active   int
	d        time.Duration
}

func (q *quickRunner) enter() {
	q.mu.Lock()
	q.active++
	q.mu.Unlock()
}
func (q *quickRunner) leave() {
	q.mu.Lock()
	q.active--
	q.cond.Broadcast()
	q.mu.Unlock()
}

func (q *quickRunner) SetOnTaskChange(f func(t *task.Task)) { q.onChange = f }
func (q *quickRunner) Run(t *task.Task) error {
	q.enter()
	defer q.leave()
	if err := q.ctx.Err(); err != nil {
		return err
	}
	t.Start = time.Now()
	q.onChange(t)
	d := q.d
	if t.Name == "bad" {
		// the failing task is the last one of its job to end, around the moment the scheduler loop wakes up from its
		// 50 ms pause (the loop looks at the stages while the failure is still being reported)
		d = 44*time.Millisecond + time.Duration(time.Now().UnixNano()%12000)*time.Microsecond
	}
	select {
	case <-time.After(d):
		t.End = time.Now()
		if t.Name == "bad" {
			t.Errored, t.Error = true, errBad
			q.onChange(t)
			return errBad
		}
		q.onChange(t)
		return nil
	case <-q.ctx.Done():
		t.Errored, t.Error = true, context.Canceled
		q.onChange(t)
		return context.Canceled
	}
}
func (q *quickRunner) Cancel() {
	q.cancel()
	q.mu.Lock()
	for q.active > 0 {
		q.cond.Wait()
	}
	q.mu.Unlock()
}
func (q *quickRunner) Finish() {}

var errBad = errors.New("exit status 1")

type lockKey struct {
	Site      string `json:"site"`
	Mutates   bool   `json:"mutates"`
	WriteHeld bool   `json:"writeHeld"`
	AnyHeld   bool   `json:"anyHeld"`
}

// gid: the id of the calling goroutine (the probes run on the goroutine of the operation they belong to)
func gid() string {
	var b [64]byte
	s := string(b[:runtime.Stack(b[:], false)])
	s = strings.TrimPrefix(s, "goroutine ")
	if i := strings.IndexByte(s, ' '); i > 0 {
		return s[:i]
	}
	return s
}

// factKey: one distinct observation; N counts how often it was made
type factKey struct {
	Prop string `json:"prop"`
	What string `json:"what"`
	P    string `json:"p"`
	A    int    `json:"a"` // C01: running jobs   C05: waiting jobs   C11: 1 = accepted after Shutdown began   C16: variant of the job
	B    int    `json:"b"` // C01: concurrency    C05: queue limit    C11: 1 = Shutdown has begun              C16: variant installed at that moment
}

var qlimit = map[string]int{"a": 3, "b": 1, "c": -1, "r": 3, "f": 3, "d": 4}

const delayD = 10 * time.Millisecond

func defs(variant int) *definition.PipelinesDef {
	three, one, four := 3, 1, 4
	return &definition.PipelinesDef{Pipelines: map[string]definition.PipelineDef{
		"a": {Concurrency: 2, QueueLimit: &three, RetentionCount: 4, SourcePath: "x", Env: map[string]string{"V": strconv.Itoa(variant)},
			Tasks: map[string]definition.TaskDef{"t1": {Script: []string{"x"}}, "t2": {Script: []string{"y"}, DependsOn: []string{"t1"}}}},
		"b": {Concurrency: 1, QueueLimit: &one, QueueStrategy: definition.QueueStrategyReplace, StartDelay: 15 * time.Millisecond, SourcePath: "x",
			Tasks: map[string]definition.TaskDef{"t": {Script: []string{"x"}}}},
		"c": {Concurrency: 1, SourcePath: "x", RetentionPeriod: 300 * time.Millisecond,
			Tasks: map[string]definition.TaskDef{"t": {Script: []string{"x"}}, "u": {Script: []string{"x"}}}},
		// a start delay with a queue (append): bursts of requests whose timers expire at almost the same moment
		"d": {Concurrency: 1, QueueLimit: &four, StartDelay: delayD, SourcePath: "x",
			Tasks: map[string]definition.TaskDef{"t": {Script: []string{"x"}}}},
		// a task that fails while its sibling goes on (no fail-fast): the job must end with that error
		"f": {Concurrency: 2, QueueLimit: &three, SourcePath: "x", ContinueRunningTasksAfterFailure: true,
			Tasks: map[string]definition.TaskDef{"bad": {Script: []string{"x"}}, "good": {Script: []string{"x"}}}},
		"r": {Concurrency: 2, QueueLimit: &three, SourcePath: "x", RetentionCount: 6,
			Tasks: map[string]definition.TaskDef{"t": {Script: []string{"true"}}, "u": {Script: []string{"sleep 0.02"}, DependsOn: []string{"t"}}}},
	}}
}

var conc = map[string]int{"a": 2, "b": 1, "c": 1, "r": 2, "f": 2, "d": 1}

func TestConcurrentClients(t *testing.T) {
	outLock, outSnap := os.Getenv("VERIF_ROWS_LOCK"), os.Getenv("VERIF_ROWS_LOCK_SNAP")
	if outLock == "" {
		t.Skip("VERIF_ROWS_LOCK not set")
	}
	log.SetHandler(discard.Default)
	seed, _ := strconv.ParseInt(os.Getenv("VERIF_SEED"), 10, 64)
	dur := 600 * time.Millisecond
	rounds := 6
	if os.Getenv("VERIF_TIER") == "thorough" {
		dur, rounds = 1500*time.Millisecond, 16
	}
	var mu sync.Mutex
	counts := map[lockKey]int{}
	facts := map[factKey]int{}
	fact := func(k factKey) {
		mu.Lock()
		facts[k]++
		mu.Unlock()
	}
	// the facts are written out every 100 ms as well, so that they survive a runtime fault of the process
	flushFacts := func() {
		outFacts := os.Getenv("VERIF_ROWS_LOCK_FACTS")
		if outFacts == "" {
			return
		}
		f3, err := os.Create(outFacts + ".tmp")
		if err != nil {
			return
		}
		enc3 := json.NewEncoder(f3)
		mu.Lock()
		for k, n := range facts {
			_ = enc3.Encode(map[string]interface{}{"prop": k.Prop, "what": k.What, "p": k.P, "a": k.A, "b": k.B, "n": n})
		}
		mu.Unlock()
		f3.Close()
		_ = os.Rename(outFacts+".tmp", outFacts)
	}
	go func() {
		for {
			time.Sleep(100 * time.Millisecond)
			flushFacts()
		}
	}()
	// order of the critical sections (all three sites run under the write lock, so the hook calls are totally ordered)
	var (
		seq         int
		shutdownSeq int
		curVariant  int
		wantVariant = map[string]int{}    // goroutine -> variant it is about to install
		lastSched   = map[string][2]int{} // goroutine -> (seq, variant installed) of its last accepting critical section
	)
	prunner.VerifAccessHook = func(site string, mutates, writeHeld, anyHeld bool) {
		mu.Lock()
		counts[lockKey{site, mutates, writeHeld, anyHeld}]++
		switch site {
		case "ScheduleAsync":
			seq++
			lastSched[gid()] = [2]int{seq, curVariant}
		case "Shutdown.begin":
			seq++
			shutdownSeq = seq
		case "ReplaceDefinitions":
			seq++
			if v, ok := wantVariant[gid()]; ok {
				curVariant = v
			}
		}
		mu.Unlock()
	}
	type snapRow struct {
		What string `json:"what"`
		Ok   bool   `json:"ok"`
		Info string `json:"info"`
	}
	var snaps []snapRow
	bad := func(what, info string) {
		mu.Lock()
		if len(snaps) < 200 {
			snaps = append(snaps, snapRow{what, false, info})
		}
		mu.Unlock()
	}
	nsnap := 0
	for round := 0; round < rounds; round++ {
		dir := t.TempDir()
		dstore, err := store.NewJSONDataStore(dir + "/data")
		if err != nil {
			t.Fatal(err)
		}
		ostore, _ := taskctl.NewOutputStore(dir + "/logs")
		ctx, cancelCtx := context.WithCancel(context.Background())
		pr, err := prunner.NewPipelineRunner(ctx, defs(0), func(j *prunner.PipelineJob) taskctl.Runner {
			if j.Pipeline == "r" {
				// the real task runner with real (trivial) processes
				tr, _ := taskctl.NewTaskRunner(ostore, taskctl.WithEnv(variables.FromMap(j.Env)), taskctl.WithKillTimeout(200*time.Millisecond))
				tr.Stdout, tr.Stderr = io.Discard, io.Discard
				return tr
			}
			c, cancel := context.WithCancel(context.Background())
			q := &quickRunner{ctx: c, cancel: cancel, d: time.Duration(1+len(j.Pipeline)%3) * time.Millisecond}
			q.cond = sync.NewCond(&q.mu)
			return q
		}, dstore, ostore)
		if err != nil {
			t.Fatal(err)
		}
		mu.Lock()
		seq, shutdownSeq, curVariant = 0, 0, 0
		mu.Unlock()
		var ids, acceptSeq sync.Map
		var wg sync.WaitGroup
		stop := time.Now().Add(dur)
		// in every second round Shutdown begins while the clients are still active
		shutdownDone := make(chan struct{})
		if round%2 == 1 {
			go func() {
				time.Sleep(dur * 2 / 3)
				sctx, scancel := context.WithTimeout(context.Background(), 300*time.Millisecond)
				_ = pr.Shutdown(sctx)
				scancel()
				close(shutdownDone)
			}()
			// saves (what the persist loop does at any time) all through the shutdown
			wg.Add(1)
			go func() {
				defer wg.Done()
				time.Sleep(dur*2/3 - 20*time.Millisecond)
				for {
					select {
					case <-shutdownDone:
						return
					default:
						pr.SaveToStore()
					}
				}
			}()
		}
		nclients := 8
		// bursts of requests for the delayed pipeline: their timers expire within microseconds of each other and the
		// callbacks race for the runner's lock
		wg.Add(1)
		go func() {
			defer wg.Done()
			me := gid()
			for time.Now().Before(stop) {
				for k := 0; k < 3; k++ {
					if j, err := pr.ScheduleAsync("d", prunner.ScheduleOpts{}); err == nil {
						mu.Lock()
						ls := lastSched[me]
						mu.Unlock()
						acceptSeq.Store(j.ID, ls[0])
					}
				}
				time.Sleep(25 * time.Millisecond)
			}
		}()
		// a slow reader: holds the read lock for 2 ms out of every 6 (the callbacks of running jobs queue up behind it)
		wg.Add(1)
		go func() {
			defer wg.Done()
			for time.Now().Before(stop) {
				once := false
				pr.IterateJobs(func(j *prunner.PipelineJob) {
					if !once {
						once = true
						time.Sleep(2 * time.Millisecond)
					}
				})
				time.Sleep(4 * time.Millisecond)
			}
		}()
		for c := 0; c < nclients; c++ {
			wg.Add(1)
			go func(c int) {
				defer wg.Done()
				rnd := rand.New(rand.NewSource(seed*1000 + int64(round*100+c)))
				me := gid()
				var mine []uuid.UUID
				for time.Now().Before(stop) {
					switch k := rnd.Intn(100); {
					case k < 35:
						p := []string{"a", "a", "b", "c", "r", "f", "d", "d"}[rnd.Intn(8)]
						if j, err := pr.ScheduleAsync(p, prunner.ScheduleOpts{Variables: map[string]interface{}{"c": c}}); err == nil {
							mine = append(mine, j.ID)
							ids.Store(j.ID, true)
							mu.Lock()
							ls, sd := lastSched[me], shutdownSeq
							mu.Unlock()
							// a = 1: the accepting critical section came after the one in which Shutdown began (b = 1: it has begun)
							after, begun := 0, 0
							if sd > 0 {
								begun = 1
								if ls[0] > sd {
									after = 1
								}
							}
							fact(factKey{Prop: "C11", What: "accepted-vs-shutdown", P: p, A: after, B: begun})
							if p == "d" {
								acceptSeq.Store(j.ID, ls[0])
							}
							if p == "a" {
								jv, _ := strconv.Atoi(j.Env["V"])
								fact(factKey{Prop: "C16", What: "job-built-from-installed-definitions", P: p, A: jv, B: ls[1]})
							}
						}
					case k < 50:
						if len(mine) > 0 {
							_ = pr.CancelJob(mine[rnd.Intn(len(mine))])
						}
					case k < 65:
						if len(mine) > 0 {
							_ = pr.ReadJob(mine[rnd.Intn(len(mine))], func(j *prunner.PipelineJob) {
								if j.Completed && j.End == nil {
									bad("completed job without end time", j.ID.String())
								}
								failed := false
								for _, tk := range j.Tasks {
									if j.Completed && tk.Status == "running" {
										bad("completed job with a running task", j.ID.String())
									}
									if tk.Status == "error" && tk.Errored {
										failed = true
									}
								}
								if j.Completed && j.Pipeline == "f" && failed {
									k := factKey{Prop: "C08", What: "verdict-of-completed-job-with-failed-task", P: "f"}
									if j.LastError == nil {
										k.A = 1 // reported as succeeded
									} else if j.Canceled {
										k.A = 2 // reported as canceled although nobody canceled it (only if it was not canceled by its client)
									}
									if k.A != 2 {
										fact(k)
									}
								}
							})
						}
					case k < 80:
						running := map[string]int{}
						waiting := map[string]int{}
						seen := map[uuid.UUID]bool{}
						slept := false
						pr.IterateJobs(func(j *prunner.PipelineJob) {
							if c == 0 && !slept {
								// a slow reader: holds the read lock for a while (callbacks of running jobs queue up behind it)
								slept = true
								time.Sleep(time.Duration(1+rnd.Intn(3)) * time.Millisecond)
							}
							if seen[j.ID] {
								bad("job listed twice", j.ID.String())
							}
							seen[j.ID] = true
							if j.Start != nil && !j.Completed && !j.Canceled {
								running[j.Pipeline]++
							}
							if j.Start == nil && !j.Completed && !j.Canceled {
								waiting[j.Pipeline]++
							}
						})
						for p, n := range running {
							fact(factKey{Prop: "C01", What: "running-jobs-in-snapshot", P: p, A: n, B: conc[p]})
						}
						for p, n := range waiting {
							fact(factKey{Prop: "C05", What: "waiting-jobs-in-snapshot", P: p, A: n, B: qlimit[p]})
						}
						for p, n := range running {
							if n > conc[p] {
								bad("more running jobs than the concurrency limit in one snapshot", fmt.Sprintf("%s: %d > %d", p, n, conc[p]))
							}
						}
						mu.Lock()
						nsnap++
						mu.Unlock()
					case k < 88:
						for _, pi := range pr.ListPipelines() {
							_ = pi
						}
					case k < 94:
						v := rnd.Intn(3)
						mu.Lock()
						wantVariant[me] = v
						mu.Unlock()
						pr.ReplaceDefinitions(defs(v))
					default:
						pr.SaveToStore()
					}
					if rnd.Intn(4) == 0 {
						time.Sleep(time.Duration(rnd.Intn(800)) * time.Microsecond)
					}
				}
			}(c)
		}
		wg.Wait()
		if round%2 == 1 {
			<-shutdownDone
		} else {
			sctx, scancel := context.WithTimeout(context.Background(), 200*time.Millisecond)
			_ = pr.Shutdown(sctx)
			scancel()
		}
		nonTerminal := 0
		type started struct {
			seq   int
			start time.Time
		}
		var dJobs []started
		early := 0
		pr.IterateJobs(func(j *prunner.PipelineJob) {
			if !j.Completed && !j.Canceled {
				nonTerminal++
			}
			if j.Pipeline == "d" && j.Start != nil {
				if s, ok := acceptSeq.Load(j.ID); ok {
					dJobs = append(dJobs, started{s.(int), *j.Start})
				}
				if j.Start.Sub(j.Created) < delayD {
					early++
				}
			}
			if os.Getenv("VERIF_DEBUG") != "" && j.Pipeline == "f" {
				sts := ""
				for _, tk := range j.Tasks {
					sts += fmt.Sprintf("%s=%s/%v ", tk.Name, tk.Status, tk.Errored)
				}
				fmt.Fprintf(os.Stderr, "DBG f job completed=%v canceled=%v err=%v %s\n", j.Completed, j.Canceled, j.LastError, sts)
			}
			// the verdict of every finished job of the pipeline that goes on after a failure
			if j.Completed && j.Pipeline == "f" && !j.Canceled {
				for _, tk := range j.Tasks {
					if tk.Status == "error" && tk.Errored {
						k := factKey{Prop: "C08", What: "verdict-of-completed-job-with-failed-task", P: "f"}
						if j.LastError == nil {
							k.A = 1 // reported as succeeded
						}
						fact(k)
					}
				}
			}
		})
		fact(factKey{Prop: "C11", What: "non-terminal-jobs-after-shutdown-returned", A: nonTerminal})
		// the delayed pipeline has one slot, so every one of its jobs waits: they start in the order of their accepting
		// critical sections (a: pairs that started in the other order), none earlier than its delay (a: how many did)
		sort.Slice(dJobs, func(x, y int) bool { return dJobs[x].seq < dJobs[y].seq })
		inversions := 0
		for i := 1; i < len(dJobs); i++ {
			if dJobs[i].start.Before(dJobs[i-1].start) {
				inversions++
			}
		}
		fact(factKey{Prop: "C06", What: "started-out-of-acceptance-order", P: "d", A: inversions})
		fact(factKey{Prop: "C07", What: "started-before-its-delay", P: "d", A: early})
		cancelCtx()
	}
	f, err := os.Create(outLock)
	if err != nil {
		t.Fatal(err)
	}
	enc := json.NewEncoder(f)
	mu.Lock()
	for k, n := range counts {
		_ = enc.Encode(map[string]interface{}{"site": k.Site, "mutates": k.Mutates, "writeHeld": k.WriteHeld, "anyHeld": k.AnyHeld, "n": n})
	}
	mu.Unlock()
	f.Close()
	flushFacts()
	f2, _ := os.Create(outSnap)
	enc2 := json.NewEncoder(f2)
	_ = enc2.Encode(snapRow{fmt.Sprintf("%d snapshots and reads by concurrent clients were consistent", nsnap), true, ""})
	for _, s := range snaps {
		_ = enc2.Encode(s)
	}
	f2.Close()
	fmt.Fprintf(os.Stderr, "VERIF-DONE %d sites %d snaps\n", len(counts), nsnap)
}

package realprobe

import (
	"bytes"
	"context"
	"fmt"
	"os"
	"path/filepath"
	"strconv"
	"strings"
	"sync/atomic"
	"testing"
	"time"

	"github.com/Flowpack/prunner"
	"github.com/Flowpack/prunner/definition"
)

// process tree shapes a task script can create without leaving its process group
type shape struct {
	Name     string
	Script   []string
	IgnInt   bool // some member ignores SIGINT
	Detached bool // an ignoring member does not hold the task's output pipe
	TwoCmd   bool // cancel while the second command runs; the first left a helper behind
	Procs    int  // processes expected to carry the marker while the task runs
}

func shapes() []shape {
	return []shape{
		{Name: "plain", Script: []string{"sleep 30"}, Procs: 1},
		{Name: "sh-child", Script: []string{"sh -c 'sleep 30; true'"}, Procs: 2},
		{Name: "background-wait", Script: []string{"sh -c 'sleep 31 & sleep 30; wait'"}, Procs: 3, IgnInt: true},
		{Name: "pipeline", Script: []string{"sh -c 'sleep 30 | cat | cat'"}, Procs: 4},
		{Name: "subshell-depth3", Script: []string{`sh -c "sh -c 'sh -c \"sleep 30; true\"; true'; true"`}, Procs: 4},
		{Name: "leader-ignores-int", Script: []string{`sh -c 'trap "" INT; sleep 30; true'`}, Procs: 2, IgnInt: true},
		{Name: "ignoring-child-holds-pipe", Script: []string{`sh -c '(trap "" INT; sleep 30; true) & sleep 30; true'`}, Procs: 3, IgnInt: true},
		{Name: "ignoring-grandchild-detached", Script: []string{`sh -c '(trap "" INT; sleep 30 >/dev/null 2>&1 </dev/null &); sleep 30; true'`}, Procs: 3, IgnInt: true, Detached: true},
		{Name: "helper-of-earlier-command", Script: []string{`sh -c 'sleep 33 >/dev/null 2>&1 </dev/null & true'`, "sleep 30"}, Procs: 2, IgnInt: true, Detached: true, TwoCmd: true},
		{Name: "output-writer", Script: []string{"sh -c 'while true; do echo tick; sleep 0.05; done'"}, Procs: 2},
	}
}

// marked: pids of live (non-zombie) processes whose environment carries the marker
func marked(marker string) []int {
	var out []int
	ents, _ := os.ReadDir("/proc")
	for _, e := range ents {
		pid, err := strconv.Atoi(e.Name())
		if err != nil {
			continue
		}
		env, err := os.ReadFile(filepath.Join("/proc", e.Name(), "environ"))
		if err != nil || !bytes.Contains(env, []byte(marker)) {
			continue
		}
		st, err := os.ReadFile(filepath.Join("/proc", e.Name(), "stat"))
		if err != nil {
			continue
		}
		// state is the field after the ")" that closes the command name
		i := bytes.LastIndexByte(st, ')')
		if i < 0 || i+2 >= len(st) || st[i+2] == 'Z' || st[i+2] == 'X' {
			continue
		}
		out = append(out, pid)
	}
	return out
}

type procRow struct {
	Shape        string `json:"shape"`
	Trigger      string `json:"trigger"`
	IgnInt       bool   `json:"ignInt"`
	Detached     bool   `json:"detached"`
	Instant      string `json:"instant"`
	Started      int    `json:"started"`      // marked processes seen before the cancel
	AtReport     int    `json:"atReport"`     // alive at the moment the job is first reported finished
	AfterGrace   int    `json:"afterGrace"`   // still alive 250 ms later
	ElapsedMs    int    `json:"elapsedMs"`    // cancel -> reported finished
	TimeoutMs    int    `json:"timeoutMs"`    // kill timeout of the runner
	Reported     bool   `json:"reported"`     // the job was reported finished within timeout + 5 s
	Canceled     bool   `json:"canceled"`     // ... as canceled
	OtherAlive   bool   `json:"otherAlive"`   // the processes of the other job are untouched
	SurvivorPids string `json:"survivorPids"`
	StallMs      int    `json:"stallMs"` // worst oversleep of a 5 ms sleeper while waiting for the report (scheduling latency of the machine)
}

// stall meter: how late does a goroutine that sleeps 5 ms wake up (a loaded machine is not a slow cancel)
var stallMaxUs atomic.Int64

func init() {
	go func() {
		for {
			t := time.Now()
			time.Sleep(5 * time.Millisecond)
			over := time.Since(t) - 5*time.Millisecond
			if us := over.Microseconds(); us > stallMaxUs.Load() {
				stallMaxUs.Store(us)
			}
		}
	}()
}

func TestProcs(t *testing.T) {
	enc, done := rowsFile(t, "VERIF_ROWS_PROCS")
	defer done()
	const killTimeout = 400 * time.Millisecond
	run := strconv.FormatInt(time.Now().UnixNano(), 36)
	tasksOf := func(s shape) map[string]definition.TaskDef {
		return map[string]definition.TaskDef{"work": {Script: s.Script}}
	}
	pipes := map[string]definition.PipelineDef{
		"other": {Concurrency: 1, SourcePath: "x", Env: map[string]string{"VERIF_MARK": run + "-other"}, Tasks: map[string]definition.TaskDef{"work": {Script: []string{"sh -c 'sleep 120; true'"}}}},
	}
	for i, s := range shapes() {
		pipes["s"+strconv.Itoa(i)] = definition.PipelineDef{Concurrency: 4, SourcePath: "x", Env: map[string]string{"VERIF_MARK": run + "-s" + strconv.Itoa(i) + "-"}, Tasks: tasksOf(s)}
	}
	defs := &definition.PipelinesDef{Pipelines: pipes}
	r := newRig(t, defs, killTimeout)
	other, err := r.pr.ScheduleAsync("other", prunner.ScheduleOpts{})
	if err != nil {
		t.Fatal(err)
	}
	waitMarked := func(marker string, n int, d time.Duration) int {
		deadline := time.Now().Add(d)
		last := 0
		for time.Now().Before(deadline) {
			last = len(marked(marker))
			if last >= n {
				return last
			}
			time.Sleep(5 * time.Millisecond)
		}
		return last
	}
	if waitMarked(run+"-other", 2, 10*time.Second) < 2 {
		t.Fatal("INFRA: other job did not start")
	}
	instants := []string{"early", "late"}
	triggers := []string{"cancel"}
	for i, s := range shapes() {
		for _, inst := range instants {
			for _, trig := range triggers {
				marker := run + "-s" + strconv.Itoa(i) + "-"
				job, err := r.pr.ScheduleAsync("s"+strconv.Itoa(i), prunner.ScheduleOpts{})
				if err != nil {
					t.Fatal(err)
				}
				started := waitMarked(marker, s.Procs, 10*time.Second)
				if started < s.Procs {
					t.Fatalf("INFRA: shape %s: only %d of %d processes appeared", s.Name, started, s.Procs)
				}
				if inst == "late" {
					time.Sleep(120 * time.Millisecond)
				}
				stallMaxUs.Store(0)
				t0 := time.Now()
				if err := r.pr.CancelJob(job.ID); err != nil {
					t.Fatal(err)
				}
				row := procRow{Shape: s.Name, Trigger: trig, IgnInt: s.IgnInt, Detached: s.Detached, Instant: inst, Started: started, TimeoutMs: int(killTimeout / time.Millisecond)}
				row.Reported = r.waitDone(job.ID, killTimeout+30*time.Second)
				row.ElapsedMs = int(time.Since(t0) / time.Millisecond)
				row.StallMs = int(stallMaxUs.Load() / 1000)
				at := marked(marker)
				row.AtReport = len(at)
				time.Sleep(250 * time.Millisecond)
				after := marked(marker)
				row.AfterGrace = len(after)
				row.SurvivorPids = fmt.Sprint(after)
				row.Canceled = r.view(job.ID).Canceled
				row.OtherAlive = len(marked(run+"-other")) >= 2 && !r.view(other.ID).Completed
				_ = enc.Encode(&row)
				// clean up whatever is left so that the next case starts clean
				for _, pid := range marked(marker) {
					if p, err := os.FindProcess(pid); err == nil {
						_ = p.Kill()
					}
				}
			}
		}
	}
	// forced shutdown as the second trigger: every running job is stopped, including the other one
	{
		i := 7
		marker := run + "-s" + strconv.Itoa(i) + "-"
		s := shapes()[i]
		job, _ := r.pr.ScheduleAsync("s"+strconv.Itoa(i), prunner.ScheduleOpts{})
		started := waitMarked(marker, s.Procs, 10*time.Second)
		ctx, cancel := context.WithCancel(context.Background())
		stallMaxUs.Store(0)
		t0 := time.Now()
		go func() { time.Sleep(30 * time.Millisecond); cancel() }()
		_ = r.pr.Shutdown(ctx)
		row := procRow{Shape: s.Name, Trigger: "forced-shutdown", IgnInt: s.IgnInt, Detached: s.Detached, Instant: "early", Started: started, TimeoutMs: int(killTimeout / time.Millisecond)}
		row.Reported = r.view(job.ID).Completed
		row.ElapsedMs = int(time.Since(t0) / time.Millisecond)
		row.StallMs = int(stallMaxUs.Load() / 1000)
		row.AtReport = len(marked(marker)) + len(marked(run+"-other"))
		time.Sleep(250 * time.Millisecond)
		after := append(marked(marker), marked(run+"-other")...)
		row.AfterGrace = len(after)
		row.SurvivorPids = fmt.Sprint(after)
		row.Canceled = r.view(job.ID).Canceled
		row.OtherAlive = true
		_ = enc.Encode(&row)
		for _, pid := range after {
			if p, err := os.FindProcess(pid); err == nil {
				_ = p.Kill()
			}
		}
	}
	_ = strings.TrimSpace
}

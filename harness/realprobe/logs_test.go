package realprobe

import (
	"bufio"
	"bytes"
	"encoding/json"
	"fmt"
	"net/http"
	"net/http/httptest"
	"os"
	"path/filepath"
	"regexp"
	"strconv"
	"strings"
	"testing"
	"time"

	"github.com/go-chi/jwtauth/v5"

	"github.com/Flowpack/prunner"
	"github.com/Flowpack/prunner/definition"
	"github.com/Flowpack/prunner/server"
)

type logCmd struct {
	Kind string `json:"kind"`
	Size int    `json:"size"`
}
type logCase struct {
	ID    int      `json:"id"`
	Shape []logCmd `json:"shape"`
}
type logRow struct {
	Shape    []logCmd `json:"shape"`
	Job      int      `json:"job"`
	Task     string   `json:"task"`
	Stream   string   `json:"stream"`
	Equal    bool     `json:"equal"`
	Order    []int    `json:"order"`
	Cross    bool     `json:"cross"`
	APIEqual bool     `json:"apiEqual"`
	LenExp   int      `json:"lenExp"`
	LenGot   int      `json:"lenGot"`
}

var sizeOf = []int{0, 1, 4096, 65537, 5 << 20}

func chunk(job, task, cmd, class int) []byte {
	n := sizeOf[class]
	if n == 0 {
		return nil
	}
	if n == 1 {
		return []byte{byte('a' + (job+task+cmd)%26)}
	}
	h := fmt.Sprintf("#J%d:T%d:C%d#", job, task, cmd)
	b := bytes.Repeat([]byte{byte('a' + (task+cmd)%26)}, n)
	copy(b, h)
	b[n-1] = '\n'
	if class == 3 {
		b[n-1] = 'z' // no trailing newline
	}
	return b
}

var hdr = regexp.MustCompile(`#J(\d+):T(\d+):C(\d+)#`)

func TestLogs(t *testing.T) {
	enc, done := rowsFile(t, "VERIF_ROWS_LOGS")
	defer done()
	xenc, xdone := rowsFile(t, "VERIF_ROWS_LOGS_EXTRA")
	defer xdone()
	var cases []logCase
	f, err := os.Open(os.Getenv("VERIF_CASES_LOGS"))
	if err != nil {
		t.Fatal("INFRA: ", err)
	}
	sc := bufio.NewScanner(f)
	sc.Buffer(make([]byte, 1<<20), 1<<24)
	for sc.Scan() {
		var c logCase
		if err := json.Unmarshal(sc.Bytes(), &c); err != nil {
			t.Fatal(err)
		}
		cases = append(cases, c)
	}
	f.Close()
	njobs := 3
	if os.Getenv("VERIF_TIER") == "thorough" {
		njobs = 6
	}
	chunkDir := t.TempDir()
	tasks := map[string]definition.TaskDef{}
	for _, c := range cases {
		var script []string
		for i, cmd := range c.Shape {
			file := fmt.Sprintf("{{ .dir }}/t%dc%d", c.ID, i+1)
			switch cmd.Kind {
			case "out":
				script = append(script, "cat "+file)
			case "err":
				script = append(script, "cat "+file+" >&2")
			default:
				script = append(script, "cat "+file+"; cat "+file+" >&2")
			}
		}
		tasks["t"+strconv.Itoa(c.ID)] = definition.TaskDef{Script: script}
	}
	defs := &definition.PipelinesDef{Pipelines: map[string]definition.PipelineDef{
		"logs": {Concurrency: njobs, SourcePath: "x", Tasks: tasks},
	}}
	r := newRig(t, defs, 0)
	var jobs []*prunner.PipelineJob
	for j := 1; j <= njobs; j++ {
		d := filepath.Join(chunkDir, fmt.Sprintf("job%d", j))
		_ = os.MkdirAll(d, 0o777)
		for _, c := range cases {
			for i, cmd := range c.Shape {
				if err := os.WriteFile(filepath.Join(d, fmt.Sprintf("t%dc%d", c.ID, i+1)), chunk(j, c.ID, i+1, cmd.Size), 0o644); err != nil {
					t.Fatal(err)
				}
			}
		}
		job, err := r.pr.ScheduleAsync("logs", prunner.ScheduleOpts{Variables: map[string]interface{}{"dir": d}})
		if err != nil {
			t.Fatal(err)
		}
		jobs = append(jobs, job)
	}
	for _, job := range jobs {
		if !r.waitDone(job.ID, 10*time.Minute) {
			t.Fatal("INFRA: job did not finish")
		}
		if v := r.view(job.ID); v.Canceled || v.LastErr != "" {
			t.Fatal("INFRA: log job failed: " + v.LastErr)
		}
	}
	auth := jwtauth.New("HS256", []byte("secret-secret-secret-0123"), nil)
	_, token, _ := auth.Encode(map[string]interface{}{"sub": "x"})
	h := server.NewServer(r.pr, r.ostore, func(h http.Handler) http.Handler { return h }, auth, false)
	api := func(id, task string) (int, string, string) {
		req := httptest.NewRequest("GET", "/job/logs?id="+id+"&task="+task, nil)
		req.Header.Set("Authorization", "Bearer "+token)
		rec := httptest.NewRecorder()
		h.ServeHTTP(rec, req)
		var body struct {
			Stdout string `json:"stdout"`
			Stderr string `json:"stderr"`
		}
		_ = json.Unmarshal(rec.Body.Bytes(), &body)
		return rec.Code, body.Stdout, body.Stderr
	}
	for ji, job := range jobs {
		j := ji + 1
		for _, c := range cases {
			task := "t" + strconv.Itoa(c.ID)
			code, aout, aerr := api(job.ID.String(), task)
			for _, stream := range []string{"out", "err"} {
				var exp []byte
				for i, cmd := range c.Shape {
					if cmd.Kind == "both" || cmd.Kind == stream {
						exp = append(exp, chunk(j, c.ID, i+1, cmd.Size)...)
					}
				}
				got, _ := r.read(job.ID, task, "std"+stream)
				row := logRow{Shape: c.Shape, Job: j, Task: task, Stream: stream, Equal: bytes.Equal(got, exp), Order: []int{}, LenExp: len(exp), LenGot: len(got)}
				for _, m := range hdr.FindAllSubmatch(got, -1) {
					gj, _ := strconv.Atoi(string(m[1]))
					gt, _ := strconv.Atoi(string(m[2]))
					gc, _ := strconv.Atoi(string(m[3]))
					if gj != j || gt != c.ID {
						row.Cross = true
					} else {
						row.Order = append(row.Order, gc)
					}
				}
				a := aout
				if stream == "err" {
					a = aerr
				}
				row.APIEqual = code == 200 && a == string(exp)
				_ = enc.Encode(&row)
			}
		}
	}
	chk := func(what string, ok bool, info string) { _ = xenc.Encode(&extraRow{What: what, Ok: ok, Info: info}) }
	burst(t, chk)
	id := jobs[0].ID.String()
	code, _, _ := api(id, "nosuchtask")
	chk("a task the job does not have is refused", code == 404, strconv.Itoa(code))
	code, _, _ = api(id, "")
	chk("an empty task name is refused", code >= 400 && code < 500, strconv.Itoa(code))
	// a task with 4 KiB on both streams, asked for with other spellings of the same job id
	var ref logCase
	for _, c := range cases {
		if len(c.Shape) == 1 && c.Shape[0].Kind == "both" && c.Shape[0].Size == 2 {
			ref = c
		}
	}
	want := string(chunk(1, ref.ID, 1, 2))
	for _, sp := range []string{strings.ToUpper(id), "{" + id + "}", "urn:uuid:" + id, strings.ReplaceAll(id, "-", "")} {
		code, o, e := api(sp, "t"+strconv.Itoa(ref.ID))
		chk("job id spelled "+sp[:9]+"...: refused or exact", code != 200 || (o == want && e == want), fmt.Sprintf("%d %d %d", code, len(o), len(e)))
	}
}

// burst: many jobs whose tasks all start writing at the same moment ("however many jobs write at once")
func burst(t *testing.T, chk func(what string, ok bool, info string)) {
	const njobs, ntasks = 16, 8
	rounds := 3
	if os.Getenv("VERIF_TIER") == "thorough" {
		rounds = 12
	}
	tasks := map[string]definition.TaskDef{}
	for k := 1; k <= ntasks; k++ {
		tasks["b"+strconv.Itoa(k)] = definition.TaskDef{Script: []string{fmt.Sprintf("printf 'out:%%s:b%d;' {{ .tag }}", k), fmt.Sprintf("printf 'err:%%s:b%d;' {{ .tag }} >&2", k)}}
	}
	defs := &definition.PipelinesDef{Pipelines: map[string]definition.PipelineDef{"burst": {Concurrency: njobs, SourcePath: "x", Tasks: tasks}}}
	r := newRig(t, defs, 0)
	for round := 0; round < rounds; round++ {
		jobs := make([]*prunner.PipelineJob, njobs)
		start := make(chan struct{})
		doneCh := make(chan int, njobs)
		for j := 0; j < njobs; j++ {
			go func(j int) {
				<-start
				job, err := r.pr.ScheduleAsync("burst", prunner.ScheduleOpts{Variables: map[string]interface{}{"tag": fmt.Sprintf("r%dj%d", round, j)}})
				if err == nil {
					jobs[j] = job
				}
				doneCh <- j
			}(j)
		}
		close(start)
		for j := 0; j < njobs; j++ {
			<-doneCh
		}
		bad := 0
		info := ""
		for j, job := range jobs {
			if job == nil || !r.waitDone(job.ID, 2*time.Minute) {
				t.Fatal("INFRA: burst job did not run")
			}
			for k := 1; k <= ntasks; k++ {
				o, _ := r.read(job.ID, "b"+strconv.Itoa(k), "stdout")
				e, _ := r.read(job.ID, "b"+strconv.Itoa(k), "stderr")
				wo, we := fmt.Sprintf("out:r%dj%d:b%d;", round, j, k), fmt.Sprintf("err:r%dj%d:b%d;", round, j, k)
				if string(o) != wo || string(e) != we {
					bad++
					if info == "" {
						info = fmt.Sprintf("job %d task b%d: stdout %q want %q", j, k, string(o), wo)
					}
				}
			}
		}
		chk(fmt.Sprintf("burst of %d jobs x %d tasks, round %d: every (job, task, stream) has exactly its own output", njobs, ntasks, round), bad == 0, info)
	}
}

package realprobe

// Real-process probes for C18 (environment), C19 (task output), C20 (no process left behind):
// the real PipelineRunner with the real taskctl.TaskRunner / PgidExecutor (constructed as in app.go) runs /bin/sh children.

import (
	"context"
	"encoding/json"
	"io"
	"os"
	"testing"
	"time"

	"github.com/apex/log"
	"github.com/apex/log/handlers/discard"
	"github.com/gofrs/uuid"
	"github.com/taskctl/taskctl/pkg/variables"

	"github.com/Flowpack/prunner"
	"github.com/Flowpack/prunner/definition"
	"github.com/Flowpack/prunner/store"
	"github.com/Flowpack/prunner/taskctl"
)

type rig struct {
	pr     *prunner.PipelineRunner
	ostore *taskctl.FileOutputStore
	dir    string
	cancel context.CancelFunc
}

func newRig(t *testing.T, defs *definition.PipelinesDef, killTimeout time.Duration) *rig {
	log.SetHandler(discard.Default)
	dir := t.TempDir()
	ostore, err := taskctl.NewOutputStore(dir + "/logs")
	if err != nil {
		t.Fatal(err)
	}
	dstore, err := store.NewJSONDataStore(dir + "/data")
	if err != nil {
		t.Fatal(err)
	}
	ctx, cancel := context.WithCancel(context.Background())
	pr, err := prunner.NewPipelineRunner(ctx, defs, func(j *prunner.PipelineJob) taskctl.Runner {
		// as in app.go
		opts := []taskctl.Opts{taskctl.WithEnv(variables.FromMap(j.Env))}
		if killTimeout > 0 {
			opts = append(opts, taskctl.WithKillTimeout(killTimeout))
		}
		taskRunner, _ := taskctl.NewTaskRunner(ostore, opts...)
		taskRunner.Stdout = io.Discard
		taskRunner.Stderr = io.Discard
		return taskRunner
	}, dstore, ostore)
	if err != nil {
		t.Fatal(err)
	}
	return &rig{pr: pr, ostore: ostore, dir: dir, cancel: cancel}
}

type jobView struct {
	Found, Completed, Canceled, Started bool
	LastErr                             string
}

func (r *rig) view(id uuid.UUID) jobView {
	var v jobView
	_ = r.pr.ReadJob(id, func(j *prunner.PipelineJob) {
		v.Found, v.Completed, v.Canceled, v.Started = true, j.Completed, j.Canceled, j.Start != nil
		if j.LastError != nil {
			v.LastErr = j.LastError.Error()
		}
	})
	return v
}

// waitDone polls until the job is reported finished (completed or canceled-without-start); false on deadline (infra).
func (r *rig) waitDone(id uuid.UUID, d time.Duration) bool {
	deadline := time.Now().Add(d)
	for time.Now().Before(deadline) {
		v := r.view(id)
		if v.Completed || (v.Canceled && !v.Started) {
			return true
		}
		time.Sleep(2 * time.Millisecond)
	}
	return false
}

func (r *rig) read(id uuid.UUID, task, stream string) ([]byte, error) {
	rd, err := r.ostore.Reader(id.String(), task, stream)
	if err != nil {
		return nil, err
	}
	defer rd.Close()
	return io.ReadAll(rd)
}

func rowsFile(t *testing.T, env string) (*json.Encoder, func()) {
	p := os.Getenv(env)
	if p == "" {
		t.Skip(env + " not set")
	}
	f, err := os.Create(p)
	if err != nil {
		t.Fatal(err)
	}
	return json.NewEncoder(f), func() { f.Close() }
}

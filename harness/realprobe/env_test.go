package realprobe

import (
	"fmt"
	"os"
	"regexp"
	"strings"
	"testing"
	"time"

	"github.com/gofrs/uuid"

	"github.com/Flowpack/prunner"
	"github.com/Flowpack/prunner/definition"
)

var payloads = []string{
	"plain",
	`a b 'q' "dq" \back`,
	"line1\nline2\n",
	`$HOME=x=y$(echo no)` + "`id`",
	"üñí—☃ 日本",
	"   lead/trail  ",
}

func levelBits(ls []string) string {
	s := ""
	for _, l := range []string{"proc", "pipe", "task"} {
		for _, x := range ls {
			if x == l {
				s += map[string]string{"proc": "e", "pipe": "p", "task": "t"}[l]
			}
		}
	}
	if s == "" {
		s = "none"
	}
	return s
}

func subsets() [][]string {
	all := []string{"proc", "pipe", "task"}
	var out [][]string
	for m := 0; m < 8; m++ {
		s := []string{}
		for i, l := range all {
			if m&(1<<i) != 0 {
				s = append(s, l)
			}
		}
		out = append(out, s)
	}
	return out
}

func has(ls []string, l string) bool {
	for _, x := range ls {
		if x == l {
			return true
		}
	}
	return false
}

func val(level string, pc int, name string) string {
	return map[string]string{"proc": "E|", "pipe": "P|", "task": "T|"}[level] + payloads[pc] + "|" + name
}

type envRow struct {
	Levels  []string `json:"levels"`
	Payload int      `json:"payload"`
	Point   []string `json:"point"`
	Seen    string   `json:"seen"`
	Exact   bool     `json:"exact"`
	Got     string   `json:"got"`
}
type extraRow struct {
	What string `json:"what"`
	Ok   bool   `json:"ok"`
	Info string `json:"info"`
}

func TestEnv(t *testing.T) {
	enc, done := rowsFile(t, "VERIF_ROWS_ENV")
	defer done()
	xenc, xdone := rowsFile(t, "VERIF_ROWS_ENV_EXTRA")
	defer xdone()
	pipeEnv, taskEnv := map[string]string{}, map[string]string{}
	var names []string
	type nm struct {
		ls []string
		pc int
	}
	byName := map[string]nm{}
	for _, ls := range subsets() {
		for pc := range payloads {
			n := fmt.Sprintf("V_%s_%d", levelBits(ls), pc)
			names = append(names, n)
			byName[n] = nm{ls, pc}
			if has(ls, "proc") {
				os.Setenv(n, val("proc", pc, n))
			} else {
				os.Unsetenv(n)
			}
			if has(ls, "pipe") {
				pipeEnv[n] = val("pipe", pc, n)
			}
			if has(ls, "task") {
				taskEnv[n] = val("task", pc, n)
			}
		}
	}
	var sb strings.Builder
	for _, n := range names {
		fmt.Fprintf(&sb, `printf '<<%s=%%s=>>' "${%s-@unset@}"; `, n, n)
	}
	show := sb.String()
	tpl := `printf '<<tpl=%s>>' {{ .v }}`
	defs := &definition.PipelinesDef{Pipelines: map[string]definition.PipelineDef{
		"p": {Concurrency: 3, Env: pipeEnv, SourcePath: "x", Tasks: map[string]definition.TaskDef{
			"t0": {Script: []string{show}},
			"t1": {Script: []string{show, tpl}, Env: taskEnv},
			"t2": {Script: []string{show, tpl}},
		}},
		"q": {Concurrency: 1, SourcePath: "x", Tasks: map[string]definition.TaskDef{
			"t1": {Script: []string{show, tpl}},
		}},
	}}
	r := newRig(t, defs, 0)
	j1, err := r.pr.ScheduleAsync("p", prunner.ScheduleOpts{Variables: map[string]interface{}{"v": "alpha1"}})
	if err != nil {
		t.Fatal(err)
	}
	j2, _ := r.pr.ScheduleAsync("p", prunner.ScheduleOpts{Variables: map[string]interface{}{"v": "beta2"}})
	j3, _ := r.pr.ScheduleAsync("q", prunner.ScheduleOpts{Variables: map[string]interface{}{"v": "gamma3"}})
	// the reserved variable name: an attempt to attribute this job's state and logs to job 1
	j4, err4 := r.pr.ScheduleAsync("p", prunner.ScheduleOpts{Variables: map[string]interface{}{"__jobID": j1.ID.String(), "v": "evil"}})
	for _, j := range []*prunner.PipelineJob{j1, j2, j3} {
		if !r.waitDone(j.ID, 60*time.Second) {
			t.Fatal("INFRA: job did not finish")
		}
	}
	re := regexp.MustCompile(`(?s)<<(V_[a-z]+_\d)=(.*?)=>>`)
	emit := func(jobID uuid.UUID, pipe, task string) {
		out, err := r.read(jobID, task, "stdout")
		got := map[string]string{}
		if err == nil {
			for _, m := range re.FindAllStringSubmatch(string(out), -1) {
				got[m[1]] = m[2]
			}
		}
		for _, n := range names {
			c := byName[n]
			row := envRow{Levels: c.ls, Payload: c.pc, Point: []string{pipe, task}, Got: got[n]}
			g, ok := got[n]
			switch {
			case !ok:
				row.Seen = "other"
			case g == "@unset@":
				row.Seen, row.Exact = "unset", true
			default:
				row.Seen = "other"
				for _, l := range []string{"proc", "pipe", "task"} {
					if strings.HasPrefix(g, val(l, c.pc, n)[:2]) {
						row.Seen = l
						row.Exact = g == val(l, c.pc, n)
					}
				}
			}
			if len(row.Got) > 80 {
				row.Got = row.Got[:80]
			}
			_ = enc.Encode(&row)
		}
	}
	emit(j1.ID, "p", "t0")
	emit(j1.ID, "p", "t1")
	emit(j1.ID, "p", "t2")
	emit(j3.ID, "q", "t1")
	// the second job of p must see the same (checked on t1 only, as extra rows)
	chk := func(what string, ok bool, info string) { _ = xenc.Encode(&extraRow{What: what, Ok: ok, Info: info}) }
	o1, _ := r.read(j1.ID, "t1", "stdout")
	o2, _ := r.read(j2.ID, "t1", "stdout")
	o3, _ := r.read(j3.ID, "t1", "stdout")
	strip := func(b []byte) string { return regexp.MustCompile(`<<tpl=.*?>>`).ReplaceAllString(string(b), "") }
	chk("second job of the same pipeline sees the same environment", strip(o1) == strip(o2) && len(o1) > 0, "")
	chk("template rendered with own variables (job 1)", strings.Contains(string(o1), "<<tpl=alpha1>>") && !strings.Contains(string(o1), "beta2") && !strings.Contains(string(o1), "gamma3"), "")
	chk("template rendered with own variables (job 2)", strings.Contains(string(o2), "<<tpl=beta2>>") && !strings.Contains(string(o2), "alpha1"), "")
	chk("template rendered with own variables (other pipeline)", strings.Contains(string(o3), "<<tpl=gamma3>>") && !strings.Contains(string(o3), "alpha1"), "")
	t2, _ := r.read(j1.ID, "t2", "stdout")
	chk("template in task t2", strings.Contains(string(t2), "<<tpl=alpha1>>"), "")
	// reserved name
	if err4 != nil {
		chk("reserved variable name refused (rejected at schedule)", true, err4.Error())
	} else {
		r.waitDone(j4.ID, 20*time.Second)
		v := r.view(j4.ID)
		_, e1 := os.Stat(r.dir + "/logs/" + j4.ID.String())
		after, _ := r.read(j1.ID, "t1", "stdout")
		v1 := r.view(j1.ID)
		chk("reserved variable name refused (job canceled with error, nothing ran)", v.Canceled && v.LastErr != "" && os.IsNotExist(e1), v.LastErr)
		chk("job 1 unaffected by the job that named its id", string(after) == string(o1) && v1.Completed && !v1.Canceled && !strings.Contains(string(after), "evil"), "")
	}
}

package realprobe

// Probe for TaskExec.tla: every case of the two-line task (line outcomes, allow_failure, cancel while line 1 / 2 runs,
// with or without a dependent task) is run with real processes by the real TaskRunner under the real PipelineRunner;
// one row per case records what the runner reports once the job is finished.

import (
	"bytes"
	"fmt"
	"strings"
	"testing"
	"time"

	"github.com/Flowpack/prunner"
	"github.com/Flowpack/prunner/definition"
)

type execRow struct {
	Allow    bool   `json:"allow"`
	O1       string `json:"o1"`
	O2       string `json:"o2"`
	CancelAt int    `json:"cancelAt"`
	Dep      bool   `json:"dep"`

	Ran1         bool   `json:"ran1"`
	Ran2         bool   `json:"ran2"`
	Status       string `json:"status"`
	Errored      bool   `json:"errored"`
	Canceled     bool   `json:"canceled"`
	Exit         int    `json:"exit"`
	JobCompleted bool   `json:"jobCompleted"`
	JobCanceled  bool   `json:"jobCanceled"`
	LastErr      string `json:"lastErr"` // none | exit | canceled | other
	NextRan      bool   `json:"nextRan"`
	Reported     bool   `json:"reported"` // the job was reported finished in time
	CancelErr    string `json:"cancelErr"`
}

func TestExec(t *testing.T) {
	enc, done := rowsFile(t, "VERIF_ROWS_EXEC")
	defer done()
	type kase struct {
		allow    bool
		o1, o2   string
		cancelAt int
		dep      bool
	}
	var cases []kase
	for _, allow := range []bool{false, true} {
		for _, dep := range []bool{false, true} {
			for _, o1 := range []string{"ok", "fail"} {
				for _, o2 := range []string{"ok", "fail"} {
					cases = append(cases, kase{allow, o1, o2, 0, dep})
				}
			}
			cases = append(cases, kase{allow, "ok", "ok", 1, dep})
			cases = append(cases, kase{allow, "ok", "ok", 2, dep})
			if allow {
				cases = append(cases, kase{allow, "fail", "ok", 2, dep})
			}
		}
	}
	line := func(k int, outcome string, hold bool) string {
		if hold {
			return fmt.Sprintf("sh -c 'echo L%d-start; sleep 30; true'", k)
		}
		code := 0
		if outcome == "fail" {
			code = 3
		}
		return fmt.Sprintf("sh -c 'echo L%d-start; exit %d'", k, code)
	}
	pipes := map[string]definition.PipelineDef{}
	for i, c := range cases {
		tasks := map[string]definition.TaskDef{
			"work": {Script: []string{line(1, c.o1, c.cancelAt == 1), line(2, c.o2, c.cancelAt == 2)}, AllowFailure: c.allow},
		}
		if c.dep {
			tasks["next"] = definition.TaskDef{Script: []string{"echo next-ran"}, DependsOn: []string{"work"}}
		}
		pipes[fmt.Sprintf("c%d", i)] = definition.PipelineDef{Concurrency: 1, SourcePath: "x", Tasks: tasks}
	}
	r := newRig(t, &definition.PipelinesDef{Pipelines: pipes}, 300*time.Millisecond)
	for i, c := range cases {
		job, err := r.pr.ScheduleAsync(fmt.Sprintf("c%d", i), prunner.ScheduleOpts{})
		if err != nil {
			t.Fatalf("INFRA: schedule: %v", err)
		}
		row := execRow{Allow: c.allow, O1: c.o1, O2: c.o2, CancelAt: c.cancelAt, Dep: c.dep}
		if c.cancelAt > 0 {
			// wait until the line to interrupt has started, then cancel the job
			want := []byte(fmt.Sprintf("L%d-start", c.cancelAt))
			deadline := time.Now().Add(10 * time.Second)
			seen := false
			for time.Now().Before(deadline) {
				if b, _ := r.read(job.ID, "work", "stdout"); bytes.Contains(b, want) {
					seen = true
					break
				}
				time.Sleep(3 * time.Millisecond)
			}
			if !seen {
				t.Fatalf("INFRA: case %d: line %d did not start", i, c.cancelAt)
			}
			if err := r.pr.CancelJob(job.ID); err != nil {
				row.CancelErr = err.Error()
			}
		}
		row.Reported = r.waitDone(job.ID, 60*time.Second)
		// let a dependent task that was (wrongly) started get to its output
		time.Sleep(30 * time.Millisecond)
		_ = r.pr.ReadJob(job.ID, func(j *prunner.PipelineJob) {
			row.JobCompleted, row.JobCanceled = j.Completed, j.Canceled
			switch {
			case j.LastError == nil:
				row.LastErr = "none"
			case strings.Contains(j.LastError.Error(), "context canceled"):
				row.LastErr = "canceled"
			case strings.Contains(j.LastError.Error(), "exit status"):
				row.LastErr = "exit"
			default:
				row.LastErr = "other"
			}
			if jt := j.Tasks.ByName("work"); jt != nil {
				row.Status, row.Errored, row.Canceled, row.Exit = jt.Status, jt.Errored, jt.Canceled, int(jt.ExitCode)
			}
		})
		out, _ := r.read(job.ID, "work", "stdout")
		row.Ran1, row.Ran2 = bytes.Contains(out, []byte("L1-start")), bytes.Contains(out, []byte("L2-start"))
		if c.dep {
			nb, _ := r.read(job.ID, "next", "stdout")
			row.NextRan = bytes.Contains(nb, []byte("next-ran"))
		}
		_ = enc.Encode(row)
	}
	r.cancel()
}

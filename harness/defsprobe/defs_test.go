package defsprobe

// Probe for C17: executes every case enumerated by TLC from Defs.tla against the real
// definition.LoadRecursively, and records PipelinesDef.Equals on reflection-generated
// single-field variants. The rows are validated by TLC (DefsTrace.tla).

import (
	"bufio"
	"encoding/json"
	"fmt"
	"os"
	"path/filepath"
	"reflect"
	"sort"
	"strconv"
	"strings"
	"testing"
	"time"

	"github.com/Flowpack/prunner/definition"
)

const unset = -99

type pipeCase struct {
	Name     string   `json:"name"`
	Conc     int      `json:"conc"`
	QLimit   int      `json:"qlimit"`
	Strategy string   `json:"strategy"`
	Delay    int      `json:"delay"`
	Deps     []string `json:"deps"`
}

type defCase struct {
	ID    int          `json:"id"`
	Files [][]pipeCase `json:"files"`
}

type loadedPipe struct {
	Name    string   `json:"name"`
	Conc    int      `json:"conc"`
	QLimit  int      `json:"qlimit"`
	Replace bool     `json:"replace"`
	Delay   int      `json:"delay"`
	Deps    []string `json:"deps"`
}

type loadRow struct {
	ID     int          `json:"id"`
	Files  [][]pipeCase `json:"files"`
	Err    bool         `json:"err"`
	ErrMsg string       `json:"errmsg"`
	Pipes  []loadedPipe `json:"pipes"`
	Err2   bool         `json:"err2"`
	Pipes2 []loadedPipe `json:"pipes2"`
}

func yamlOf(ps []pipeCase, variant int) string {
	var b strings.Builder
	b.WriteString("pipelines:\n")
	if len(ps) == 0 {
		return "pipelines: {}\n"
	}
	for _, p := range ps {
		fmt.Fprintf(&b, "  %s:\n", p.Name)
		if p.Conc != unset {
			fmt.Fprintf(&b, "    concurrency: %d\n", p.Conc)
		}
		if p.QLimit != unset {
			fmt.Fprintf(&b, "    queue_limit: %d\n", p.QLimit)
		}
		if p.Strategy != "" {
			if variant == 1 {
				fmt.Fprintf(&b, "    queue_strategy: %q\n", p.Strategy)
			} else {
				fmt.Fprintf(&b, "    queue_strategy: %s\n", p.Strategy)
			}
		}
		if p.Delay != unset {
			fmt.Fprintf(&b, "    start_delay: %ds\n", p.Delay)
		}
		b.WriteString("    tasks:\n      a:\n        script:\n          - echo a\n      b:\n        script: [\"echo b\"]\n")
		if len(p.Deps) > 0 {
			if variant == 1 {
				b.WriteString("        depends_on:\n")
				for _, d := range p.Deps {
					fmt.Fprintf(&b, "          - %s\n", d)
				}
			} else {
				fmt.Fprintf(&b, "        depends_on: [%s]\n", strings.Join(p.Deps, ", "))
			}
		}
	}
	return b.String()
}

func load(dir string, files [][]pipeCase, reverse bool) (bool, string, []loadedPipe) {
	n := len(files)
	order := make([]int, n)
	for i := range order {
		order[i] = i
	}
	if reverse {
		for i, j := 0, n-1; i < j; i, j = i+1, j-1 {
			order[i], order[j] = order[j], order[i]
		}
	}
	for pos, i := range order {
		// reverse: other creation order, other sorted-path order, deeper nesting, other YAML spelling
		var d string
		if reverse {
			d = filepath.Join(dir, "z", fmt.Sprintf("n%02d", pos), "deep")
		} else {
			d = filepath.Join(dir, fmt.Sprintf("f%02d", i))
		}
		if err := os.MkdirAll(d, 0o777); err != nil {
			panic(err)
		}
		v := 0
		if reverse {
			v = 1
		}
		if err := os.WriteFile(filepath.Join(d, "pipelines.yml"), []byte(yamlOf(files[i], v)), 0o644); err != nil {
			panic(err)
		}
	}
	defs, err := definition.LoadRecursively(filepath.Join(dir, "**/pipelines.{yml,yaml}"))
	if err != nil {
		return true, err.Error(), []loadedPipe{}
	}
	out := []loadedPipe{}
	for name, pd := range defs.Pipelines {
		lp := loadedPipe{Name: name, Conc: pd.Concurrency, QLimit: unset, Replace: pd.QueueStrategy == definition.QueueStrategyReplace,
			Delay: int(pd.StartDelay / time.Second), Deps: []string{}}
		if pd.QueueLimit != nil {
			lp.QLimit = *pd.QueueLimit
		}
		if tb, ok := pd.Tasks["b"]; ok && tb.DependsOn != nil {
			lp.Deps = tb.DependsOn
		}
		if len(pd.Tasks) != 2 || pd.SourcePath == "" {
			lp.Name += "?tasks"
		}
		out = append(out, lp)
	}
	sort.Slice(out, func(i, j int) bool { return out[i].Name < out[j].Name })
	return false, "", out
}

func TestLoadCases(t *testing.T) {
	in, outp := os.Getenv("VERIF_CASES"), os.Getenv("VERIF_ROWS_LOAD")
	if in == "" || outp == "" {
		t.Skip("VERIF_CASES / VERIF_ROWS_LOAD not set")
	}
	f, err := os.Open(in)
	if err != nil {
		t.Fatal(err)
	}
	defer f.Close()
	of, err := os.Create(outp)
	if err != nil {
		t.Fatal(err)
	}
	defer of.Close()
	enc := json.NewEncoder(of)
	sc := bufio.NewScanner(f)
	sc.Buffer(make([]byte, 1<<20), 1<<24)
	n := 0
	for sc.Scan() {
		var c defCase
		if err := json.Unmarshal(sc.Bytes(), &c); err != nil {
			t.Fatal(err)
		}
		for i := range c.Files {
			if c.Files[i] == nil {
				c.Files[i] = []pipeCase{}
			}
			for k := range c.Files[i] {
				if c.Files[i][k].Deps == nil {
					c.Files[i][k].Deps = []string{}
				}
			}
		}
		if c.Files == nil {
			c.Files = [][]pipeCase{}
		}
		r := loadRow{ID: c.ID, Files: c.Files}
		r.Err, r.ErrMsg, r.Pipes = load(t.TempDir(), c.Files, false)
		r.Err2, _, r.Pipes2 = load(t.TempDir(), c.Files, true)
		if err := enc.Encode(&r); err != nil {
			t.Fatal(err)
		}
		n++
	}
	fmt.Fprintf(os.Stderr, "VERIF-DONE %d\n", n)
}

// ---- equality: reflection-generated variants ----

// norm: a JSON-able normal form in which two values are equal iff they denote the same configuration
// (nil and empty collections are the same; all numbers as strings - TLC has 32 bit integers).
func norm(v reflect.Value) interface{} {
	switch v.Kind() {
	case reflect.Ptr:
		if v.IsNil() {
			return []interface{}{"nil"}
		}
		return []interface{}{"ptr", norm(v.Elem())}
	case reflect.Struct:
		m := map[string]interface{}{}
		for i := 0; i < v.NumField(); i++ {
			m[v.Type().Field(i).Name] = norm(v.Field(i))
		}
		return m
	case reflect.Map:
		keys := v.MapKeys()
		sort.Slice(keys, func(i, j int) bool { return keys[i].String() < keys[j].String() })
		out := []interface{}{}
		for _, k := range keys {
			out = append(out, []interface{}{k.String(), norm(v.MapIndex(k))})
		}
		return out
	case reflect.Slice:
		out := []interface{}{}
		for i := 0; i < v.Len(); i++ {
			out = append(out, norm(v.Index(i)))
		}
		return out
	case reflect.Int, reflect.Int64, reflect.Int32:
		return "i" + strconv.FormatInt(v.Int(), 10)
	case reflect.Bool:
		return v.Bool()
	case reflect.String:
		return "s" + v.String()
	}
	panic("unsupported kind " + v.Kind().String())
}

func deepCopy(v reflect.Value) reflect.Value {
	switch v.Kind() {
	case reflect.Ptr:
		if v.IsNil() {
			return reflect.Zero(v.Type())
		}
		n := reflect.New(v.Type().Elem())
		n.Elem().Set(deepCopy(v.Elem()))
		return n
	case reflect.Struct:
		n := reflect.New(v.Type()).Elem()
		for i := 0; i < v.NumField(); i++ {
			n.Field(i).Set(deepCopy(v.Field(i)))
		}
		return n
	case reflect.Map:
		if v.IsNil() {
			return reflect.Zero(v.Type())
		}
		n := reflect.MakeMap(v.Type())
		for _, k := range v.MapKeys() {
			n.SetMapIndex(k, deepCopy(v.MapIndex(k)))
		}
		return n
	case reflect.Slice:
		if v.IsNil() {
			return reflect.Zero(v.Type())
		}
		n := reflect.MakeSlice(v.Type(), v.Len(), v.Len())
		for i := 0; i < v.Len(); i++ {
			n.Index(i).Set(deepCopy(v.Index(i)))
		}
		return n
	}
	n := reflect.New(v.Type()).Elem()
	n.Set(v)
	return n
}

type variant struct {
	field string
	kind  string // "variant" | "copy"
	val   definition.PipelinesDef
}

// mutate enumerates single-field changes below v (addressable); emit is called while the change is applied.
func mutate(path string, v reflect.Value, emit func(field, kind string)) {
	switch v.Kind() {
	case reflect.Struct:
		for i := 0; i < v.NumField(); i++ {
			mutate(path+"."+v.Type().Field(i).Name, v.Field(i), emit)
		}
	case reflect.Int, reflect.Int64, reflect.Int32:
		old := v.Int()
		v.SetInt(old + 1)
		emit(path+"+1", "variant")
		v.SetInt(0)
		if old != 0 {
			emit(path+"=0", "variant")
		}
		v.SetInt(old)
	case reflect.Bool:
		v.SetBool(!v.Bool())
		emit(path+"!", "variant")
		v.SetBool(!v.Bool())
	case reflect.String:
		old := v.String()
		v.SetString(old + "x")
		emit(path+"+x", "variant")
		v.SetString("")
		if old != "" {
			emit(path+"=\"\"", "variant")
		}
		v.SetString(old)
	case reflect.Ptr:
		old := reflect.New(v.Type()).Elem()
		old.Set(v)
		if v.IsNil() {
			n := reflect.New(v.Type().Elem())
			v.Set(n)
			emit(path+"nil->zero", "variant")
		} else {
			mutate(path+"*", v.Elem(), emit)
			v.Set(reflect.Zero(v.Type()))
			emit(path+"->nil", "variant")
		}
		v.Set(old)
	case reflect.Slice:
		old := reflect.New(v.Type()).Elem()
		old.Set(v)
		elem := reflect.New(v.Type().Elem()).Elem()
		if elem.Kind() == reflect.String {
			elem.SetString("extra")
		}
		v.Set(reflect.Append(deepCopy(old), elem))
		emit(path+"+elem", "variant")
		if old.Len() > 0 {
			v.Set(deepCopy(old).Slice(0, old.Len()-1))
			emit(path+"-last", "variant")
			c := deepCopy(old)
			if c.Index(0).Kind() == reflect.String {
				c.Index(0).SetString(c.Index(0).String() + "x")
				v.Set(c)
				emit(path+"[0]+x", "variant")
			}
		}
		if old.Len() > 1 {
			c := deepCopy(old)
			a, b := c.Index(0).Interface(), c.Index(1).Interface()
			if !reflect.DeepEqual(a, b) {
				c.Index(0).Set(reflect.ValueOf(b))
				c.Index(1).Set(reflect.ValueOf(a))
				v.Set(c)
				emit(path+"swap01", "variant")
			}
		}
		if old.Len() == 0 {
			// nil and empty are the same configuration
			if old.IsNil() {
				v.Set(reflect.MakeSlice(v.Type(), 0, 0))
			} else {
				v.Set(reflect.Zero(v.Type()))
			}
			emit(path+"nil<->empty", "copy")
		}
		v.Set(old)
	case reflect.Map:
		old := reflect.New(v.Type()).Elem()
		old.Set(v)
		et := v.Type().Elem()
		newKey := reflect.ValueOf("zz_new").Convert(v.Type().Key())
		// add a key with the zero value (for strings: the empty string)
		c := deepCopy(old)
		if c.IsNil() {
			c = reflect.MakeMap(v.Type())
		}
		c.SetMapIndex(newKey, reflect.Zero(et))
		v.Set(c)
		emit(path+"+key(zero)", "variant")
		if old.Len() > 0 {
			keys := old.MapKeys()
			sort.Slice(keys, func(i, j int) bool { return keys[i].String() < keys[j].String() })
			k0 := keys[0]
			// remove a key
			c = deepCopy(old)
			c.SetMapIndex(k0, reflect.Value{})
			v.Set(c)
			emit(path+"-key", "variant")
			// rename a key (same number of keys, same values)
			c = deepCopy(old)
			val := c.MapIndex(k0)
			c.SetMapIndex(k0, reflect.Value{})
			c.SetMapIndex(newKey, val)
			v.Set(c)
			emit(path+"renamekey", "variant")
			// rename a key whose value is the zero value
			c = deepCopy(old)
			c.SetMapIndex(k0, reflect.Value{})
			c.SetMapIndex(reflect.ValueOf("a_zero").Convert(v.Type().Key()), reflect.Zero(et))
			c2 := deepCopy(old)
			c2.SetMapIndex(k0, reflect.Value{})
			c2.SetMapIndex(reflect.ValueOf("b_zero").Convert(v.Type().Key()), reflect.Zero(et))
			_ = c2
			v.Set(c)
			emit(path+"key->zerokey", "variant")
			// change inside each value
			for _, k := range keys {
				c = deepCopy(old)
				tmp := reflect.New(et).Elem()
				tmp.Set(c.MapIndex(k))
				mutate(path+"["+k.String()+"]", tmp, func(field, kind string) {
					c.SetMapIndex(k, tmp)
					v.Set(c)
					emit(field, kind)
				})
			}
		} else {
			if old.IsNil() {
				v.Set(reflect.MakeMap(v.Type()))
			} else {
				v.Set(reflect.Zero(v.Type()))
			}
			emit(path+"nil<->empty", "copy")
		}
		v.Set(old)
	default:
		panic("unsupported kind in definition: " + v.Kind().String() + " at " + path)
	}
}

func intp(i int) *int { return &i }

func bases() []definition.PipelinesDef {
	full := definition.PipelinesDef{Pipelines: definition.PipelinesMap{
		"p": {
			Concurrency: 2, QueueLimit: intp(3), QueueStrategy: definition.QueueStrategyReplace, StartDelay: 5 * time.Second,
			ContinueRunningTasksAfterFailure: true, RetentionPeriod: time.Hour, RetentionCount: 7,
			Env:        map[string]string{"A": "1", "B": ""},
			SourcePath: "x/pipelines.yml",
			Tasks: map[string]definition.TaskDef{
				"a": {Script: []string{"echo a", "echo b"}, DependsOn: nil, AllowFailure: true, Env: map[string]string{"K": "v", "E": ""}},
				"b": {Script: []string{"true"}, DependsOn: []string{"a", "c"}, Env: nil},
				"c": {Script: nil, DependsOn: []string{}},
			},
		},
		"q": {Concurrency: 1, Tasks: map[string]definition.TaskDef{"t": {Script: []string{"x"}}}, Env: map[string]string{}},
	}}
	sparse := definition.PipelinesDef{Pipelines: definition.PipelinesMap{
		"only": {Concurrency: 1, QueueLimit: nil, Tasks: map[string]definition.TaskDef{"a": {Env: map[string]string{"A": ""}}}, Env: map[string]string{"X": ""}},
	}}
	empty := definition.PipelinesDef{Pipelines: definition.PipelinesMap{}}
	return []definition.PipelinesDef{full, sparse, empty}
}

type eqRow struct {
	Kind  string      `json:"kind"`
	Base  int         `json:"base"`
	Field string      `json:"field"`
	A     interface{} `json:"a"`
	B     interface{} `json:"b"`
	Eq    bool        `json:"eq"`
	EqRev bool        `json:"eqRev"`
}

func TestEquals(t *testing.T) {
	outp := os.Getenv("VERIF_ROWS_EQ")
	if outp == "" {
		t.Skip("VERIF_ROWS_EQ not set")
	}
	of, err := os.Create(outp)
	if err != nil {
		t.Fatal(err)
	}
	defer of.Close()
	enc := json.NewEncoder(of)
	n := 0
	for bi, base := range bases() {
		a := deepCopy(reflect.ValueOf(base)).Interface().(definition.PipelinesDef)
		work := reflect.New(reflect.TypeOf(base)).Elem()
		work.Set(deepCopy(reflect.ValueOf(base)))
		emit := func(field, kind string) {
			b := work.Interface().(definition.PipelinesDef)
			r := eqRow{Kind: kind, Base: bi, Field: field, A: norm(reflect.ValueOf(a)), B: norm(reflect.ValueOf(b)), Eq: a.Equals(b), EqRev: b.Equals(a)}
			if err := enc.Encode(&r); err != nil {
				t.Fatal(err)
			}
			n++
		}
		emit("(deep copy)", "copy")
		mutate("", work, emit)
	}
	fmt.Fprintf(os.Stderr, "VERIF-DONE %d\n", n)
}

// storeprobe: drives the real store.JsonDataStore for the C09 engine.
//
//	storeprobe save <dir> <plan>   plan = comma separated saves: "n" jobs | "nan" (snapshot that cannot be encoded)
//	                               | "par:n:m" (two concurrent savers with n and m jobs)
//	storeprobe load <dir>          prints "LOADED <digest> <njobs>" or "LOADERR <msg>"
//
// Markers are written to stderr with a single write each so that they appear, in order, in the syscall trace.
package main

import (
	"crypto/sha1"
	"encoding/hex"
	"encoding/json"
	"fmt"
	"math"
	"os"
	"runtime"
	"strconv"
	"strings"
	"sync"
	"time"

	"github.com/gofrs/uuid"

	"github.com/Flowpack/prunner/store"
)

func snapshot(gen, n int, bad bool) *store.PersistedData {
	d := &store.PersistedData{Jobs: []store.PersistedJob{}}
	t0 := time.Date(2020, 1, 2, 3, 4, 5, 0, time.UTC)
	for i := 0; i < n; i++ {
		id := uuid.NewV5(uuid.NamespaceOID, fmt.Sprintf("gen%d-job%d", gen, i))
		start := t0.Add(time.Duration(i) * time.Second)
		msg := "exit status 1"
		j := store.PersistedJob{ID: id, Pipeline: fmt.Sprintf("pipe-%d", gen), Completed: i%2 == 0, Canceled: i%3 == 0, Created: t0, Start: &start,
			Variables: map[string]interface{}{"gen": gen, "i": i, "s": strings.Repeat("x", 50+i%7), "f": 0.5 + float64(i)},
			User:      "u", Tasks: []store.PersistedTask{{Name: "a", Script: []string{"echo a"}, Status: "done", Start: &start, End: &start},
				{Name: "b", Script: []string{"false"}, DependsOn: []string{"a"}, Status: "error", Errored: true, Error: &msg, ExitCode: 1}}}
		if bad && i == n/2 {
			j.Variables["nan"] = math.NaN()
		}
		d.Jobs = append(d.Jobs, j)
	}
	return d
}

func digest(d *store.PersistedData) string {
	b, _ := json.Marshal(d)
	h := sha1.Sum(b)
	return hex.EncodeToString(h[:8])
}

func mark(s string) { _, _ = os.Stderr.Write([]byte(s + "\n")) }

func main() {
	if len(os.Args) < 3 {
		os.Exit(2)
	}
	switch os.Args[1] {
	case "digest":
		// digest <gen> <n>: what Load must return for snapshot (gen, n)
		g, _ := strconv.Atoi(os.Args[2])
		n, _ := strconv.Atoi(os.Args[3])
		// round trip through the codec of the standard library (same normal form as after Load)
		b, _ := json.Marshal(snapshot(g, n, false))
		var back store.PersistedData
		_ = json.Unmarshal(b, &back)
		fmt.Println(digest(&back))
	case "load":
		s, err := store.NewJSONDataStore(os.Args[2])
		if err != nil {
			fmt.Println("LOADERR", err)
			return
		}
		d, err := s.Load()
		if err != nil {
			fmt.Println("LOADERR", strings.ReplaceAll(err.Error(), "\n", " "))
			return
		}
		fmt.Println("LOADED", digest(d), len(d.Jobs))
	case "save":
		runtime.LockOSThread()
		s, err := store.NewJSONDataStore(os.Args[2])
		if err != nil {
			mark("FATAL " + err.Error())
			os.Exit(3)
		}
		for k, step := range strings.Split(os.Args[3], ",") {
			gen := k + 1
			switch {
			case step == "nan":
				mark(fmt.Sprintf("SAVE-BEGIN %d bad", gen))
				err := s.Save(snapshot(gen, 6, true))
				mark(fmt.Sprintf("SAVE-END %d err=%v", gen, err != nil))
			case strings.HasPrefix(step, "par:"):
				p := strings.Split(step, ":")
				a, _ := strconv.Atoi(p[1])
				b, _ := strconv.Atoi(p[2])
				mark(fmt.Sprintf("PAR-BEGIN %d", gen))
				var wg sync.WaitGroup
				for w, n := range []int{a, b} {
					wg.Add(1)
					go func(w, n int) {
						defer wg.Done()
						for r := 0; r < 20; r++ {
							_ = s.Save(snapshot(1000+gen*10+w, n, false))
						}
					}(w, n)
				}
				wg.Wait()
				mark(fmt.Sprintf("PAR-END %d", gen))
			default:
				n, _ := strconv.Atoi(step)
				mark(fmt.Sprintf("SAVE-BEGIN %d n=%d", gen, n))
				err := s.Save(snapshot(gen, n, false))
				mark(fmt.Sprintf("SAVE-END %d err=%v", gen, err != nil))
			}
		}
		mark("DONE")
	}
}

package driver

// Script executor: runs planner-generated scripts (derived from TLC behaviours of
// Prunner.tla) against the real, unmodified PipelineRunner + taskctl.Scheduler
// inside a testing/synctest bubble (virtual clock) and records the observable
// vocabulary as ndjson for TLC (ObsTrace.tla / Props.tla).

import (
	"bufio"
	"bytes"
	"context"
	"encoding/json"
	"errors"
	"fmt"
	"io"
	"net/http"
	"net/http/httptest"
	"os"
	"path/filepath"
	"runtime"
	"sort"
	"strings"
	"sync"
	"sync/atomic"
	"testing"
	"testing/synctest"
	"time"

	"github.com/apex/log"
	"github.com/apex/log/handlers/discard"
	"github.com/go-chi/jwtauth/v5"
	"github.com/gofrs/uuid"
	"github.com/taskctl/taskctl/pkg/runner"

	"github.com/Flowpack/prunner"
	"github.com/Flowpack/prunner/definition"
	"github.com/Flowpack/prunner/server"
	"github.com/Flowpack/prunner/store"
	"github.com/Flowpack/prunner/taskctl"
)

const jwtSecret = "verif-secret-0123456789abcdef"

var progress atomic.Int64

func pname(p int) string { return "p" + itoa(p) }

func TestScripts(t *testing.T) {
	in := os.Getenv("VERIF_SCRIPTS")
	out := os.Getenv("VERIF_TRACE")
	if in == "" || out == "" {
		t.Skip("VERIF_SCRIPTS / VERIF_TRACE not set")
	}
	log.SetHandler(discard.Default)
	taskctl.VerifPollGate = func(r runner.Runner) {
		if f, ok := r.(*fakeRunner); ok {
			f.passGate()
		}
	}
	f, err := os.Open(in)
	if err != nil {
		t.Fatal(err)
	}
	defer f.Close()
	of, err := os.OpenFile(out, os.O_CREATE|os.O_WRONLY|os.O_APPEND, 0o644)
	if err != nil {
		t.Fatal(err)
	}
	defer of.Close()
	skip := 0
	if s := os.Getenv("VERIF_SKIP"); s != "" {
		fmt.Sscanf(s, "%d", &skip)
	}

	// wall-clock watchdog (outside any bubble): a script that makes no progress
	// for 60 s of real time is a hang of the driver or of the code under test.
	go func() {
		last := progress.Load()
		for {
			time.Sleep(60 * time.Second)
			cur := progress.Load()
			if cur == last {
				buf := make([]byte, 1<<20)
				n := runtime.Stack(buf, true)
				fmt.Fprintf(os.Stderr, "VERIF-HANG after script #%d\n%s\n", cur, buf[:n])
				os.Exit(3)
			}
			last = cur
		}
	}()

	sc := bufio.NewScanner(f)
	sc.Buffer(make([]byte, 1<<20), 1<<26)
	n := 0
	for sc.Scan() {
		line := bytes.TrimSpace(sc.Bytes())
		if len(line) == 0 {
			continue
		}
		n++
		if n <= skip {
			continue
		}
		var s Script
		if err := json.Unmarshal(line, &s); err != nil {
			t.Fatalf("script %d: %v", n, err)
		}
		// progress marker for the orchestrator: which script is running (crash attribution)
		fmt.Fprintf(os.Stderr, "VERIF-SCRIPT %d %s\n", n, s.ID)
		synctest.Test(t, func(t *testing.T) {
			runScript(t, &s, of)
		})
		progress.Add(1)
	}
	fmt.Fprintf(os.Stderr, "VERIF-DONE %d\n", n)
}

type env struct {
	t       *testing.T
	w       *world
	sc      *Script
	pr      *prunner.PipelineRunner
	prp     **prunner.PipelineRunner
	ctx     context.Context
	cancel  context.CancelFunc
	handler http.Handler
	token   string
	dir     string
	store   *store.JsonDataStore
	ostore  *taskctl.FileOutputStore
	cur     []int // current version per pipeline (0 = undefined)

	shutCancel context.CancelFunc
	shutDone   chan struct{}
	gen        int
	olds       []func() // teardown of abandoned runners
}

// startRunner creates a PipelineRunner (+ HTTP handler) on the given data directory.
func (e *env) startRunner(dataDir string) {
	t, w := e.t, e.w
	var err error
	e.store, err = store.NewJSONDataStore(dataDir)
	if err != nil {
		t.Fatal(err)
	}
	w.logsDir = filepath.Join(dataDir, "logs")
	e.ostore, err = taskctl.NewOutputStore(w.logsDir)
	if err != nil {
		t.Fatal(err)
	}
	if e.cur == nil {
		e.cur = append([]int{}, e.sc.Init...)
	}
	e.ctx, e.cancel = context.WithCancel(context.Background())
	// step-by-step mode: the loops are released explicitly, their pause is cut down so that polling does not move the clock
	taskctl.VerifPause = 0
	if e.sc.Gated {
		taskctl.VerifPause = gatedPause
	}
	prp := new(*prunner.PipelineRunner)
	mk := w.createTaskRunner(prp)
	var ds store.DataStore = e.store
	if e.sc.Slow {
		ds = &slowStore{inner: e.store, delay: 70 * time.Millisecond}
	}
	pr, err := prunner.NewPipelineRunner(e.ctx, buildDefs(e.sc, e.cur), func(j *prunner.PipelineJob) taskctl.Runner { return mk(j) }, ds, e.ostore)
	if err != nil {
		t.Fatal(err)
	}
	*prp = pr
	e.pr = pr
	auth := jwtauth.New("HS256", []byte(jwtSecret), nil)
	_, e.token, _ = auth.Encode(map[string]interface{}{"sub": "verif"})
	e.handler = server.NewServer(e.pr, e.ostore, func(h http.Handler) http.Handler { return h }, auth, false)
	e.shutCancel, e.shutDone = nil, nil
}

// slowStore: a data store whose Save takes time (a slow disk): a save can still be in flight when later events happen
type slowStore struct {
	inner store.DataStore
	delay time.Duration
	mu    sync.Mutex
	n     int
}

func (s *slowStore) Load() (*store.PersistedData, error) { return s.inner.Load() }
func (s *slowStore) Save(data *store.PersistedData) error {
	// the time a save takes varies (long, short, medium, ...): of two overlapping saves the later one would finish first
	s.mu.Lock()
	d := []time.Duration{s.delay * 2, s.delay / 7, s.delay}[s.n%3]
	s.n++
	s.mu.Unlock()
	time.Sleep(d)
	return s.inner.Save(data)
}

func copyDir(src, dst string) error {
	return filepath.Walk(src, func(p string, info os.FileInfo, err error) error {
		if err != nil {
			return err
		}
		rel, _ := filepath.Rel(src, p)
		if info.IsDir() {
			return os.MkdirAll(filepath.Join(dst, rel), 0o777)
		}
		b, err := os.ReadFile(p)
		if err != nil {
			return err
		}
		return os.WriteFile(filepath.Join(dst, rel), b, 0o644)
	})
}

// restart: the old process is gone (its runner is abandoned and muted), a new runner starts on a copy
// of the data directory as it is on disk right now.
func (e *env) restart() {
	w := e.w
	oldDir := filepath.Dir(w.logsDir)
	e.gen++
	newDir := filepath.Join(e.dir, "data"+itoa(e.gen))
	if err := copyDir(oldDir, newDir); err != nil {
		e.t.Fatal(err)
	}
	w.mu.Lock()
	w.gen = e.gen
	// the detail of every job as the old runner reported it last: every snapshot until the next step compares with it
	w.preDetail = w.detail
	unfinished := map[int]bool{}
	for i, sj := range w.st.Store.Jobs {
		// unfinished in the store: the new runner will report it canceled
		unfinished[i] = sj.Present && !(sj.Completed || sj.Canceled)
	}
	// the tasks that were executing died with the old process
	for j := range w.st.Stop {
		// stops delivered by the old process do not belong to a shutdown of the new runner
		w.st.Stop[j].DuringShut = false
	}
	for j := range w.st.Runs {
		for t := range w.st.Runs[j] {
			if r := &w.st.Runs[j][t]; r.Open {
				r.Open, r.Outcome, r.ExecAtEnd, r.EndedAt = false, "lost", true, w.nowMs()
			}
		}
	}
	w.mu.Unlock()
	// abandon the old runner: release and cancel everything, stop its persist loop (muted)
	oldPr, oldCancel, oldShutCancel := e.pr, e.cancel, e.shutCancel
	e.olds = append(e.olds, func() {
		if oldShutCancel != nil {
			oldShutCancel()
		}
		ids := []uuid.UUID{}
		oldPr.IterateJobs(func(j *prunner.PipelineJob) {
			if !j.Completed && !j.Canceled {
				ids = append(ids, j.ID)
			}
		})
		for _, id := range ids {
			_ = oldPr.CancelJob(id)
		}
		oldCancel()
	})
	e.olds[len(e.olds)-1]()
	synctest.Wait()
	e.startRunner(newDir)
	synctest.Wait()
	e.snapshot()
	w.mu.Lock()
	w.staleStore = true
	w.st.Idle = 0
	w.mu.Unlock()
	w.mu.Lock()
	for _, ji := range w.jobs {
		jo := &w.st.Jobs[ji.idx-1]
		if !jo.Listed {
			jo.Lost = true
		}
		if unfinished[ji.idx-1] {
			jo.Rst = true
		}
	}
	w.st.Shut = "no"
	w.st.Forced = false
	w.st.Phase = "run"
	w.mu.Unlock()
}

func buildDefs(sc *Script, cur []int) *definition.PipelinesDef {
	d := &definition.PipelinesDef{Pipelines: map[string]definition.PipelineDef{}}
	for pi, v := range cur {
		if v == 0 {
			continue
		}
		vs := sc.Versions[v-1]
		pd := definition.PipelineDef{
			Concurrency:                      vs.Conc,
			StartDelay:                       time.Duration(vs.Delay) * time.Millisecond,
			ContinueRunningTasksAfterFailure: vs.Cont,
			RetentionCount:                   vs.RetCount,
			RetentionPeriod:                  time.Duration(vs.RetPeriod) * time.Millisecond,
			Env:                              map[string]string{"PV": "v" + itoa(v)},
			Tasks:                            map[string]definition.TaskDef{},
			SourcePath:                       "verif",
		}
		if vs.QLimit >= 0 {
			q := vs.QLimit
			pd.QueueLimit = &q
		}
		if vs.Replace {
			pd.QueueStrategy = definition.QueueStrategyReplace
		}
		for _, ts := range vs.Tasks {
			td := definition.TaskDef{AllowFailure: ts.Allow, Env: map[string]string{"TV": "v" + itoa(v) + ":" + ts.Name}}
			if !ts.Empty {
				td.Script = []string{scriptText(v, ts.Name)}
			}
			for _, d := range ts.Deps {
				td.DependsOn = append(td.DependsOn, vs.Tasks[d-1].Name)
			}
			pd.Tasks[ts.Name] = td
		}
		d.Pipelines[pname(pi+1)] = pd
	}
	return d
}

func runScript(t *testing.T, sc *Script, of io.Writer) {
	w := &world{sc: sc, t0: time.Now(), out: json.NewEncoder(of), byID: map[uuid.UUID]*jobInfo{}, gateFree: make(chan struct{})}
	e := &env{t: t, w: w, sc: sc}
	e.dir = t.TempDir()
	e.gen = 0
	e.startRunner(filepath.Join(e.dir, "data0"))
	w.st = State{Phase: "run", Cfg: make([]CfgObs, sc.NP), Pipes: make([]PipeObs, sc.NP), Jobs: []JobObs{}, Runs: [][]RunObs{}, Stop: []StopObs{}, Ack: []AckObs{}, Logs: []bool{}, Shut: "no"}
	w.st.Store.Jobs = []StoreJob{}
	w.st.Last = LastObs{Op: "none", Res: "ok"}
	for i, v := range e.cur {
		w.st.Cfg[i] = CfgObs{Def: v != 0, Ver: v}
	}
	synctest.Wait()
	e.snapshot()
	w.mu.Lock()
	w.emit(Event{K: "Reset"})
	w.mu.Unlock()

	for _, s := range sc.Steps {
		e.step(s)
	}
	e.teardown()
}

// ---- one driver step ----

func (e *env) step(s Step) {
	w := e.w
	last := LastObs{Op: s.Op, P: s.P, J: s.J, T: s.T, O: s.O, Res: "ok", Via: s.Via, Bad: s.Bad, V: s.V}
	if last.Via == "" {
		last.Via = "api"
	}
	if last.Bad == "" {
		last.Bad = "none"
	}
	evk := "Op"
	// The state right before the call is the quiescent state now (time passed since the last line,
	// e.g. a poll wake-up or a completion during the 1 ms separation): record it if anything changed.
	w.mu.Lock()
	before := w.digest()
	dirty := w.dirty
	w.preDetail = nil
	w.mu.Unlock()
	e.snapshot()
	w.mu.Lock()
	if dirty || before != w.digest() {
		w.emit(Event{K: "Sync"})
	}
	w.mu.Unlock()
	switch s.Op {
	case "schedule":
		e.doSchedule(s, &last)
	case "cancel":
		e.doCancel(s, &last)
	case "finish":
		ok := false
		if s.J >= 1 && s.J <= len(w.jobs) {
			ji := w.jobs[s.J-1]
			if s.T >= 1 && s.T <= len(e.sc.Versions[ji.ver-1].Tasks) {
				name := e.sc.Versions[ji.ver-1].Tasks[s.T-1].Name
				for _, f := range ji.runners {
					if f.deliver(name, s.O) {
						ok = true
						break
					}
				}
			}
		}
		if !ok {
			last.Res = "skip"
		}
	case "adv":
		time.Sleep(time.Duration(s.Ms) * time.Millisecond)
	case "poll":
		if e.sc.Gated {
			if !e.gatedPoll(s.J) {
				last.Res = "skip"
			}
		} else if !e.sleepToPoll(s.J) {
			last.Res = "skip"
		}
	case "fire":
		if !e.sleepToFire(s.J) {
			last.Res = "skip"
		}
	case "reload":
		if s.P >= 1 && s.P <= e.sc.NP {
			e.cur[s.P-1] = s.V
			e.pr.ReplaceDefinitions(buildDefs(e.sc, e.cur))
			w.mu.Lock()
			c := &w.st.Cfg[s.P-1]
			c.Def = s.V != 0
			c.Ver = s.V
			c.Epoch++
			w.mu.Unlock()
		} else {
			last.Res = "skip"
		}
	case "save":
		e.pr.SaveToStore()
	case "longadv":
		// the persist interval (3 s) plus the time two writes of a slow store may take
		time.Sleep(3600 * time.Millisecond)
	case "restart":
		e.restart()
		evk = "Restart"
	case "shutdown":
		if e.shutDone != nil {
			last.Res = "skip"
			break
		}
		var sctx context.Context
		sctx, e.shutCancel = context.WithCancel(context.Background())
		e.shutDone = make(chan struct{})
		w.mu.Lock()
		w.st.Shut = "begun"
		w.st.Phase = "shutdown"
		w.mu.Unlock()
		gen, pr, doneCh := e.gen, e.pr, e.shutDone
		go func() {
			_ = pr.Shutdown(sctx)
			w.mu.Lock()
			if w.gen == gen {
				// (the Shutdown of a runner that was abandoned by a restart meanwhile is not an observation of the new runner)
				w.st.Shut = "returned"
				w.st.ShutAt = w.nowMs()
				w.emit(Event{K: "ShutdownRet"})
			}
			w.mu.Unlock()
			close(doneCh)
		}()
	case "force":
		if e.shutCancel != nil {
			e.shutCancel()
			w.mu.Lock()
			w.st.Forced = true
			w.mu.Unlock()
		} else {
			last.Res = "skip"
		}
	case "drain":
		e.drain()
		evk = "Drained"
	default:
		last.Res = "skip"
	}
	synctest.Wait()
	e.snapshot()
	w.mu.Lock()
	w.st.Last = last
	w.st.Conf = ConfObs{}
	if e.sc.Gated {
		w.st.Conf = ConfObs{Has: true}
	}
	w.emit(Event{K: evk, J: last.J, T: last.T, O: last.O})
	w.st.Conf = ConfObs{}
	w.mu.Unlock()
	// steps are separated by 1 ms of virtual time (not the requests of a burst: they are accepted at the same instant, so
	// that their start timers expire together and the callbacks run in whatever order the scheduler picks)
	if !s.NoSep {
		time.Sleep(time.Millisecond)
	}
	synctest.Wait()
}

// errHTTP: a refusal received through the HTTP handler
type errHTTP struct {
	code int
	msg  string
}

func (e errHTTP) Error() string { return fmt.Sprintf("http %d: %s", e.code, e.msg) }

func errClass(err error) string {
	if err == nil {
		return ""
	}
	// the classes the properties speak about are recognised by what a client can rely on - the exported error values and
	// the status codes - before any wording of a message
	var he errHTTP
	switch {
	case errors.Is(err, prunner.ErrShuttingDown):
		return "shutdown"
	case errors.Is(err, prunner.ErrJobNotFound):
		return "notfound"
	case errors.As(err, &he) && he.code == http.StatusServiceUnavailable:
		return "shutdown"
	case errors.As(err, &he) && he.code == http.StatusNotFound:
		return "notfound"
	}
	m := err.Error()
	switch {
	case strings.Contains(m, "shutting down"):
		return "shutdown"
	case strings.Contains(m, "is not defined"):
		return "undefined"
	case strings.Contains(m, "queueing disabled"):
		return "noqueue"
	case strings.Contains(m, "queue limit reached"):
		return "queuefull"
	case strings.Contains(m, "job not found"):
		return "notfound"
	case strings.Contains(m, "already completed"):
		return "completed"
	}
	return "other"
}

func (e *env) doSchedule(s Step, last *LastObs) {
	w := e.w
	vars := payload(len(w.jobs)+1, e.sc.Seed)
	if s.Bad == "reserved" {
		vars[taskctl.JobIDVariableName] = "x"
	}
	w.mu.Lock()
	w.curP = s.P
	w.curVer = 0
	if s.P >= 1 && s.P <= e.sc.NP {
		w.curVer = e.cur[s.P-1]
	}
	w.curBad = last.Bad
	w.mu.Unlock()
	var id uuid.UUID
	var err error
	if s.Via == "http" {
		body, _ := json.Marshal(map[string]interface{}{"pipeline": pname(s.P), "variables": vars})
		code, resp := e.http("POST", "/pipelines/schedule", body)
		last.HTTP = code
		if code == http.StatusAccepted {
			var r struct {
				JobID string `json:"jobId"`
			}
			_ = json.Unmarshal(resp, &r)
			id, err = uuid.FromString(r.JobID)
		} else {
			var r struct {
				Error string `json:"error"`
			}
			_ = json.Unmarshal(resp, &r)
			err = errHTTP{code, r.Error}
		}
	} else {
		var j *prunner.PipelineJob
		j, err = e.pr.ScheduleAsync(pname(s.P), prunner.ScheduleOpts{Variables: vars, User: "verif"})
		if err == nil {
			id = j.ID
		}
	}
	w.mu.Lock()
	if err != nil {
		last.Res = "err"
		last.Err = errClass(err)
	} else {
		ji := w.jobFor(id)
		last.New = ji.idx
		w.st.Jobs[ji.idx-1].RetAt = w.nowMs()
	}
	w.curP, w.curVer, w.curBad = 0, 0, ""
	w.mu.Unlock()
}

// payload: job variables of the types real clients send (C10: "variable values of any JSON type")
func payload(n int, seed int64) map[string]interface{} {
	pool := []map[string]interface{}{
		{"n": n},
		{"n": n, "f": 0.1234567891, "tiny": 1e-9, "big": 1.5e300},
		{"n": n, "s": "a\"b\nc \u00fc \u2603", "arr": []interface{}{1, 2.5, map[string]interface{}{"k": "v"}}, "b": true},
		{"n": n, "neg": -0.000123456789, "obj": map[string]interface{}{"x": []interface{}{}, "y": 7.25}, "e": ""},
	}
	return pool[(int(seed)+n)%len(pool)]
}

func (e *env) doCancel(s Step, last *LastObs) {
	w := e.w
	var id uuid.UUID
	known := s.J >= 1 && s.J <= len(w.jobs)
	if known {
		id = w.jobs[s.J-1].id
	} else {
		id, _ = uuid.NewV4()
		last.J = 0
	}
	// what the API reports for the job just before the request
	var wasStarted, wasFinished, found bool
	_ = e.pr.ReadJob(id, func(j *prunner.PipelineJob) {
		found = true
		wasStarted = j.Start != nil
		wasFinished = j.Completed || j.Canceled
	})
	stopBefore := false
	if known {
		w.mu.Lock()
		w.st.Ack[s.J-1].Req++
		stopBefore = w.st.Stop[s.J-1].N > 0
		w.mu.Unlock()
	}
	var err error
	if s.Via == "http" {
		code, _ := e.http("POST", "/job/cancel?id="+id.String(), nil)
		last.HTTP = code
		switch code {
		case http.StatusOK:
		case http.StatusNotFound:
			err = prunner.ErrJobNotFound
		default:
			err = fmt.Errorf("already completed (http %d)", code)
		}
	} else {
		err = e.pr.CancelJob(id)
	}
	if err != nil {
		last.Res = "err"
		last.Err = errClass(err)
	}
	if known && err == nil && found {
		w.mu.Lock()
		a := &w.st.Ack[s.J-1]
		a.N++
		if a.N == 1 && !wasFinished {
			a.At = w.nowMs()
			a.WasStarted = wasStarted
			a.StopBefore = stopBefore
			for i, r := range w.st.Runs[s.J-1] {
				allow := e.sc.Versions[w.jobs[s.J-1].ver-1].Tasks[i].Allow
				a.OkAtAck[i] = r.Begun > 0 && !r.Open && (r.Outcome == "ok" || ((r.Outcome == "fail" || r.Outcome == "err") && allow))
				a.OpenAtAck[i] = r.Open
				if r.Outcome == "err" || (r.Outcome == "fail" && !allow) {
					a.FailedAtAck = true
				}
			}
		}
		if a.N == 1 && wasFinished {
			a.WasFinished = true
		}
		w.mu.Unlock()
	}
}

func (e *env) http(method, url string, body []byte) (int, []byte) {
	req := httptest.NewRequest(method, url, bytes.NewReader(body))
	req.Header.Set("Authorization", "Bearer "+e.token)
	rec := httptest.NewRecorder()
	e.handler.ServeHTTP(rec, req)
	return rec.Code, rec.Body.Bytes()
}

const gatedPause = time.Millisecond

// gatedPoll: the loop of job j is parked at its gate (or still in its 50 ms pause): let the pause end, release one iteration
func (e *env) gatedPoll(j int) bool {
	w := e.w
	if j < 1 || j > len(w.jobs) {
		return false
	}
	ok := false
	_ = e.pr.ReadJob(w.jobs[j-1].id, func(pj *prunner.PipelineJob) { ok = pj.Start != nil && !pj.Completed })
	if !ok {
		return false
	}
	time.Sleep(gatedPause + time.Millisecond)
	synctest.Wait()
	for _, f := range w.jobs[j-1].runners {
		f.releaseGate()
	}
	return true
}

// sleepToPoll advances the virtual clock to the next wake-up of job j's scheduler
// loop (start + k*50ms), as computed from the reported Start.
func (e *env) sleepToPoll(j int) bool {
	w := e.w
	if j < 1 || j > len(w.jobs) {
		return false
	}
	var start time.Time
	ok := false
	_ = e.pr.ReadJob(w.jobs[j-1].id, func(pj *prunner.PipelineJob) {
		if pj.Start != nil && !pj.Completed {
			start = *pj.Start
			ok = true
		}
	})
	if !ok {
		return false
	}
	el := time.Since(start)
	k := el/(50*time.Millisecond) + 1
	time.Sleep(start.Add(k * 50 * time.Millisecond).Sub(time.Now()))
	return true
}

func (e *env) sleepToFire(j int) bool {
	w := e.w
	if j < 1 || j > len(w.jobs) {
		return false
	}
	var at time.Time
	ok := false
	_ = e.pr.ReadJob(w.jobs[j-1].id, func(pj *prunner.PipelineJob) {
		if pj.Start == nil && pj.StartDelay > 0 {
			at = pj.Created.Add(pj.StartDelay)
			ok = true
		}
	})
	if !ok || !at.After(time.Now()) {
		return false
	}
	time.Sleep(at.Sub(time.Now()))
	return true
}

func (e *env) releaseAll(kind string) int {
	n := 0
	for _, ji := range e.w.jobs {
		for _, f := range ji.runners {
			for _, name := range f.openTasks() {
				if f.deliver(name, kind) {
					n++
				}
			}
		}
	}
	return n
}

// drain: "provided tasks terminate": release every blocked task with success,
// let every timer expire, until nothing is pending.
func (e *env) drain() {
	w := e.w
	maxDelay := 0
	for _, v := range e.sc.Versions {
		if v.Delay > maxDelay {
			maxDelay = v.Delay
		}
	}
	limit := 60 + maxDelay/50
	if e.sc.Gated {
		// long delays: skip ahead to the expiry of pending timers instead of 50 ms steps
		limit = 200
	}
	idle := 0
	for i := 0; i < limit && idle < 3; i++ {
		n := e.releaseAll("ok")
		synctest.Wait()
		time.Sleep(50 * time.Millisecond)
		synctest.Wait()
		if e.sc.Gated {
			for _, ji := range w.jobs {
				for _, f := range ji.runners {
					f.releaseGate()
				}
			}
			synctest.Wait()
		}
		busy := n > 0
		pendingTimer := false
		e.pr.IterateJobs(func(j *prunner.PipelineJob) {
			if j.Start != nil && !j.Completed && !j.Canceled {
				busy = true
			}
			if j.Start == nil && !j.Canceled && j.StartDelay > 0 && time.Since(j.Created) <= j.StartDelay+100*time.Millisecond {
				pendingTimer = true
			}
		})
		for _, ji := range w.jobs {
			for _, f := range ji.runners {
				if len(f.openTasks()) > 0 {
					busy = true
				}
			}
		}
		if busy || pendingTimer {
			idle = 0
		} else {
			idle++
		}
		if e.sc.Gated && !busy && pendingTimer {
			time.Sleep(time.Second)
			synctest.Wait()
		}
	}
	w.mu.Lock()
	if w.st.Phase == "run" {
		w.st.Phase = "drained"
	} else if w.st.Phase == "shutdown" {
		w.st.Phase = "shutdrained"
	}
	w.mu.Unlock()
}

func (e *env) teardown() {
	close(e.w.gateFree)
	for _, f := range e.olds {
		f()
	}
	// Let everything end so that the bubble can be left: release tasks, force a
	// pending shutdown, stop the persist loop.
	if e.shutCancel != nil {
		e.shutCancel()
	}
	for i := 0; i < 10; i++ {
		e.releaseAll("ok")
		synctest.Wait()
		time.Sleep(50 * time.Millisecond)
	}
	ids := []uuid.UUID{}
	e.pr.IterateJobs(func(j *prunner.PipelineJob) {
		if !j.Completed && !j.Canceled {
			ids = append(ids, j.ID)
		}
	})
	for _, id := range ids {
		_ = e.pr.CancelJob(id)
	}
	time.Sleep(200 * time.Millisecond)
	synctest.Wait()
	// stop the persist loop: after the context is cancelled it may still serve one pending
	// request (save + 3 s sleep) before it sees Done
	e.cancel()
	time.Sleep(3100 * time.Millisecond)
	synctest.Wait()
	time.Sleep(3100 * time.Millisecond)
	synctest.Wait()
	if e.shutDone != nil {
		<-e.shutDone
	}
}

// ---- quiescent snapshot through the public API ----

type jsonTask struct {
	Name     string  `json:"name"`
	Status   string  `json:"status"`
	Start    *string `json:"start"`
	End      *string `json:"end"`
	Errored  bool    `json:"errored"`
	ExitCode int     `json:"exitCode"`
}
type jsonJob struct {
	ID        string     `json:"id"`
	Pipeline  string     `json:"pipeline"`
	Tasks     []jsonTask `json:"tasks"`
	Completed bool       `json:"completed"`
	Canceled  bool       `json:"canceled"`
	Errored   bool       `json:"errored"`
	Created   string     `json:"created"`
	Start     *string    `json:"start"`
	End       *string    `json:"end"`
	LastError *string    `json:"lastError"`
}
type jsonPipeline struct {
	Pipeline    string `json:"pipeline"`
	Schedulable bool   `json:"schedulable"`
	Running     bool   `json:"running"`
}

func (e *env) ms(t time.Time) int { return int(t.Sub(e.w.t0) / time.Millisecond) }

func lastErrClass(s *string) string {
	if s == nil {
		return ""
	}
	if strings.Contains(*s, "context canceled") {
		return "canceled"
	}
	if strings.Contains(*s, "reserved") {
		return "reserved"
	}
	if strings.Contains(*s, "cycle") {
		return "cycle"
	}
	return "other"
}

func (e *env) snapshot() {
	w := e.w
	// 1. HTTP JSON
	var body struct {
		Pipelines []jsonPipeline `json:"pipelines"`
		Jobs      []jsonJob      `json:"jobs"`
	}
	code, raw := e.http("GET", "/pipelines/jobs", nil)
	if code == 200 {
		_ = json.Unmarshal(raw, &body)
	}
	jsonByID := map[string]*jsonJob{}
	jsonPos := map[string]int{}
	for i := range body.Jobs {
		jsonByID[body.Jobs[i].ID] = &body.Jobs[i]
		jsonPos[body.Jobs[i].ID] = i + 1
	}
	// 2. IterateJobs at full resolution
	type full struct {
		job   JobObs
		names []string
	}
	fulls := map[uuid.UUID]*full{}
	var order []uuid.UUID
	e.pr.IterateJobs(func(j *prunner.PipelineJob) {
		f := &full{}
		f.job.Listed = true
		f.job.Started = j.Start != nil
		if j.Start != nil {
			f.job.StartAt = e.ms(*j.Start)
		}
		f.job.Completed = j.Completed
		f.job.Canceled = j.Canceled
		if j.End != nil {
			f.job.HasEnd = true
			f.job.EndAt = e.ms(*j.End)
		}
		f.job.CreatedAt = e.ms(j.Created)
		if j.LastError != nil {
			m := j.LastError.Error()
			f.job.LastErr = lastErrClass(&m)
		}
		f.job.NTasks = len(j.Tasks)
		for pos, t := range j.Tasks {
			f.names = append(f.names, t.Name)
			to := TaskObs{Present: true, Pos: pos + 1, Status: t.Status, Errored: t.Errored, Canceled: t.Canceled, Exit: int(t.ExitCode)}
			if t.Start != nil {
				to.HasStart = true
				to.StartAt = e.ms(*t.Start)
			}
			if t.End != nil {
				to.HasEnd = true
				to.EndAt = e.ms(*t.End)
			}
			f.job.Tasks = append(f.job.Tasks, to)
		}
		fulls[j.ID] = f
		order = append(order, j.ID)
	})
	pipes := e.pr.ListPipelines()
	// 3. by id
	byID := map[uuid.UUID]bool{}
	detail := map[uuid.UUID]string{}
	for _, ji := range w.jobs {
		c, body := e.http("GET", "/job/detail?id="+ji.id.String(), nil)
		byID[ji.id] = c == 200
		if c == 200 {
			detail[ji.id] = string(body)
		}
	}
	// 4. store + logs
	data, lerr := e.store.Load()
	logDirs := map[string]bool{}
	if ents, err := os.ReadDir(w.logsDir); err == nil {
		for _, en := range ents {
			logDirs[en.Name()] = true
		}
	}

	w.mu.Lock()
	defer w.mu.Unlock()
	st := &w.st
	st.Quiet = true
	st.Extra = 0
	w.detail = detail
	for id := range fulls {
		if _, ok := w.byID[id]; !ok {
			st.Extra++
		}
	}
	for id := range jsonByID {
		u, _ := uuid.FromString(id)
		if _, ok := w.byID[u]; !ok {
			st.Extra++
		}
	}
	for _, ji := range w.jobs {
		jo := &st.Jobs[ji.idx-1]
		f := fulls[ji.id]
		jj := jsonByID[ji.id.String()]
		jo.InList = jj != nil
		jo.ListPos = jsonPos[ji.id.String()]
		jo.ByID = byID[ji.id]
		if f == nil {
			jo.Listed = false
			continue
		}
		nt := len(jo.Tasks)
		keepP, keepVer, keepEpoch, keepAcc, keepRet, keepBad, keepExtra, keepLost, keepRst := jo.P, jo.Ver, jo.Epoch, jo.AccAt, jo.RetAt, jo.Bad, jo.ExtraTask, jo.Lost, jo.Rst
		f.job.Age = w.nowMs() - f.job.CreatedAt
		// after a restart: the job is reported (GET /job/detail) exactly as the old runner reported it
		f.job.Faithful = w.preDetail == nil || w.preDetail[ji.id] == detail[ji.id]
		if !f.job.Faithful && os.Getenv("VERIF_DEBUG_DETAIL") != "" {
			fmt.Fprintf(os.Stderr, "DETAIL %s job %d\n  old=%s\n  new=%s\n", e.sc.ID, ji.idx, w.preDetail[ji.id], detail[ji.id])
		}
		tasks := make([]TaskObs, nt)
		extra := 0
		for pos, name := range f.names {
			ti := w.taskIdx(ji, name)
			if ti == 0 {
				extra++
				continue
			}
			tasks[ti-1] = f.job.Tasks[pos]
		}
		*jo = f.job
		jo.Tasks = tasks
		jo.P, jo.Ver, jo.Epoch, jo.AccAt, jo.RetAt, jo.Bad = keepP, keepVer, keepEpoch, keepAcc, keepRet, keepBad
		jo.ExtraTask = keepExtra + extra
		jo.Lost = keepLost
		jo.Rst = keepRst
		jo.InList = jj != nil
		jo.ListPos = jsonPos[ji.id.String()]
		jo.ByID = byID[ji.id]
		jo.JSONAgree = true
		if jj != nil {
			jo.Errored = jj.Errored
			if jj.Completed != jo.Completed || jj.Canceled != jo.Canceled || (jj.Start != nil) != jo.Started || (jj.End != nil) != jo.HasEnd || lastErrClass(jj.LastError) != jo.LastErr || len(jj.Tasks) != jo.NTasks {
				jo.JSONAgree = false
			}
			for pos, jt := range jj.Tasks {
				if pos < len(f.names) && (jt.Name != f.names[pos] || jt.Status != f.job.Tasks[pos].Status || jt.Errored != f.job.Tasks[pos].Errored) {
					jo.JSONAgree = false
				}
			}
		}
	}
	for i := range st.Pipes {
		st.Pipes[i] = PipeObs{}
	}
	for _, pi := range pipes {
		for i := range st.Pipes {
			if pi.Pipeline == pname(i+1) {
				st.Pipes[i] = PipeObs{Listed: true, Schedulable: pi.Schedulable, Running: pi.Running}
			}
		}
	}
	// JSON pipelines must agree with ListPipelines
	for _, jp := range body.Pipelines {
		for i := range st.Pipes {
			if jp.Pipeline == pname(i+1) && (jp.Schedulable != st.Pipes[i].Schedulable || jp.Running != st.Pipes[i].Running) {
				st.Pipes[i].Listed = false
			}
		}
	}
	// store
	st.Store.Loaded = lerr == nil
	st.Store.Extra = 0
	for i := range st.Store.Jobs {
		st.Store.Jobs[i] = StoreJob{}
	}
	if data != nil {
		for _, pj := range data.Jobs {
			ji, ok := w.byID[pj.ID]
			if !ok {
				st.Store.Extra++
				continue
			}
			sj := &st.Store.Jobs[ji.idx-1]
			if sj.Present {
				st.Store.Extra++ // duplicate id in the store
			}
			jo := &st.Jobs[ji.idx-1]
			sj.Present = true
			sj.Completed = pj.Completed
			sj.Canceled = pj.Canceled
			sj.Started = pj.Start != nil
			sj.Same = jo.Listed && pj.Completed == jo.Completed && pj.Canceled == jo.Canceled && (pj.Start != nil) == jo.Started && (pj.End != nil) == jo.HasEnd && len(pj.Tasks) == jo.NTasks
			if sj.Same {
				f := fulls[ji.id]
				for pos, pt := range pj.Tasks {
					if pos >= len(f.names) || pt.Name != f.names[pos] || pt.Status != f.job.Tasks[pos].Status || pt.Errored != f.job.Tasks[pos].Errored || int(pt.ExitCode) != f.job.Tasks[pos].Exit || (pt.Start != nil) != f.job.Tasks[pos].HasStart || (pt.End != nil) != f.job.Tasks[pos].HasEnd {
						sj.Same = false
					}
				}
			}
		}
	}
	// logs
	st.XLogs = 0
	for i := range st.Logs {
		st.Logs[i] = false
	}
	for name := range logDirs {
		u, err := uuid.FromString(name)
		ji, ok := w.byID[u]
		if err != nil || !ok {
			st.XLogs++
			continue
		}
		st.Logs[ji.idx-1] = true
	}
	_ = sort.Ints
	// idle: time since the reported jobs / pipelines last changed (ages excluded)
	type jd struct {
		J JobObs
	}
	cp := make([]JobObs, len(st.Jobs))
	copy(cp, st.Jobs)
	for i := range cp {
		cp[i].Age = 0
		cp[i].InList, cp[i].ByID, cp[i].ListPos, cp[i].JSONAgree, cp[i].Faithful = false, false, 0, false, false
	}
	b, _ := json.Marshal([]interface{}{cp, st.Pipes})
	if string(b) != w.jobsDigest {
		w.jobsDigest = string(b)
		w.chgAt = w.nowMs()
		w.staleStore = false
	}
	st.Idle = w.nowMs() - w.chgAt
	if w.staleStore {
		// a restarted runner marks jobs canceled while loading and does not request a save for that
		st.Idle = 0
	}
}

func (w *world) touchLogs(ji *jobInfo, task string) {
	// The real TaskRunner opens both log files of a task when it starts executing it.
	dir := filepath.Join(w.logsDir, ji.id.String())
	_ = os.MkdirAll(dir, 0o777)
	for _, s := range []string{"stdout", "stderr"} {
		_ = os.WriteFile(filepath.Join(dir, task+"-"+s+".log"), []byte(task+"\n"), 0o644)
	}
}

package driver

// world: the harness-owned observation state ("vocabulary" of Props.tla) and the
// ndjson recorder. Every line carries the event that produced it (ev) and the
// full vocabulary afterwards (st). Everything in here is computed from
// harness-owned observation points only: results of public API calls,
// IterateJobs / ListPipelines / the HTTP JSON, the store file, the log
// directory and entry / exit / Cancel() of the injected fake runner.

import (
	"encoding/json"
	"os"
	"sync"
	"time"

	"github.com/gofrs/uuid"
	"github.com/taskctl/taskctl/pkg/task"

	"github.com/Flowpack/prunner"
)

// ---- script format (written by the planner from TLC output) ----

type TaskSpec struct {
	Name  string `json:"name"`
	Deps  []int  `json:"deps"` // 1-based indices into the version's task list
	Allow bool   `json:"allow"`
	Empty bool   `json:"empty"`
}

type Version struct {
	P         int        `json:"p"` // 1-based pipeline index
	Conc      int        `json:"conc"`
	QLimit    int        `json:"qlimit"` // -1: unset
	Replace   bool       `json:"replace"`
	Delay     int        `json:"delay"` // ms
	Cont      bool       `json:"cont"`
	RetCount  int        `json:"retCount"`
	RetPeriod int        `json:"retPeriod"` // ms
	Tasks     []TaskSpec `json:"tasks"`
	Cyclic    bool       `json:"cyclic"`
}

type Step struct {
	Op  string `json:"op"`
	P   int    `json:"p,omitempty"`
	J   int    `json:"j,omitempty"`
	T   int    `json:"t,omitempty"`
	O   string `json:"o,omitempty"`
	Ms  int    `json:"ms,omitempty"`
	V   int    `json:"v,omitempty"`
	Bad string `json:"bad,omitempty"`
	Via string `json:"via,omitempty"`
	// NoSep: no virtual time passes after this step (bursts)
	NoSep bool `json:"nosep,omitempty"`
}

type Script struct {
	ID       string    `json:"id"`
	Src      string    `json:"src"`
	NP       int       `json:"np"`
	Versions []Version `json:"vers"`
	Init     []int     `json:"init"` // per pipeline: version id (1-based) or 0 = undefined
	Steps    []Step    `json:"steps"`
	Seed     int64     `json:"seed"`
	Slow     bool      `json:"slow"` // the data store takes (virtual) time to write: saves can be in flight
	// Gated: the scheduler loops are parked at an iteration boundary (poll gate hook) and run one iteration per poll step;
	// time steps are much longer than a poll, so a script follows its model behaviour step by step
	Gated bool `json:"gated"`
}

// ---- vocabulary ----

type TaskObs struct {
	Present  bool   `json:"present"`
	Pos      int    `json:"pos"`
	Status   string `json:"status"`
	HasStart bool   `json:"hasStart"`
	StartAt  int    `json:"startAt"`
	HasEnd   bool   `json:"hasEnd"`
	EndAt    int    `json:"endAt"`
	Errored  bool   `json:"errored"`
	Canceled bool   `json:"canceled"`
	Exit     int    `json:"exit"`
}

type JobObs struct {
	P         int       `json:"p"`
	Ver       int       `json:"ver"`
	Epoch     int       `json:"epoch"`
	AccAt     int       `json:"accAt"`
	RetAt     int       `json:"retAt"`
	Bad       string    `json:"bad"`
	Listed    bool      `json:"listed"`
	InList    bool      `json:"inList"`
	ByID      bool      `json:"byId"`
	ListPos   int       `json:"listPos"`
	Started   bool      `json:"started"`
	StartAt   int       `json:"startAt"`
	Completed bool      `json:"completed"`
	Canceled  bool      `json:"canceled"`
	Errored   bool      `json:"errored"`
	LastErr   string    `json:"lastErr"`
	HasEnd    bool      `json:"hasEnd"`
	EndAt     int       `json:"endAt"`
	CreatedAt int       `json:"createdAt"`
	NTasks    int       `json:"ntasks"`
	ExtraTask int       `json:"extraTasks"`
	Tasks     []TaskObs `json:"tasks"`
	// JSON view (seconds resolution) consistency with IterateJobs
	JSONAgree bool `json:"jsonAgree"`
	// age at this snapshot (ms since Created) and, on a Restart line, whether the /job/detail JSON of the
	// new runner equals the one of the old runner
	Age      int  `json:"age"`
	Faithful bool `json:"faithful"`
	Lost     bool `json:"lost"` // the job was not in the store when the runner was restarted
	Rst      bool `json:"rst"`  // the job was unfinished when the runner was restarted (reported canceled by the new runner)
}

type RunObs struct {
	Begun       int    `json:"begun"`
	Refused     int    `json:"refused"`
	Open        bool   `json:"open"`
	Outcome     string `json:"outcome"`
	BegunAt     int    `json:"begunAt"`
	EndedAt     int    `json:"endedAt"`
	CmdOk       bool   `json:"cmdOk"`
	EnvOk       bool   `json:"envOk"`
	ExecAtBegin bool   `json:"execAtBegin"`
	ExecAtEnd   bool   `json:"execAtEnd"`
	GoneAtBegin bool   `json:"goneAtBegin"`
	GoneAtEnd   bool   `json:"goneAtEnd"`
	Unknown     bool   `json:"unknown"`
}

type StopObs struct {
	N           int    `json:"n"`
	At          int    `json:"at"`
	DuringShut  bool   `json:"duringShut"` // delivered while a Shutdown of the (current) runner was in progress
	ByShutdown  bool   `json:"byShutdown"` // delivered while a Shutdown was in progress (kept across restarts)
	BegunBefore []bool `json:"begunBefore"`
	OpenBefore  []bool `json:"openBefore"`
}

type AckObs struct {
	Req         int    `json:"req"` // cancel requests issued for the job (counted before the call, N after its return)
	N           int    `json:"n"`
	At          int    `json:"at"`
	WasStarted  bool   `json:"wasStarted"`
	WasFinished bool   `json:"wasFinished"`
	OkAtAck     []bool `json:"okAtAck"`
	OpenAtAck   []bool `json:"openAtAck"`
	FailedAtAck bool   `json:"failedAtAck"`
	StopBefore  bool   `json:"stopBefore"` // the runner's Cancel() had already been called before this acknowledgement
}

type CfgObs struct {
	Def   bool `json:"def"`
	Ver   int  `json:"ver"`
	Epoch int  `json:"epoch"`
}

type PipeObs struct {
	Listed      bool `json:"listed"`
	Schedulable bool `json:"schedulable"`
	Running     bool `json:"running"`
}

type StoreJob struct {
	Present   bool `json:"present"`
	Completed bool `json:"completed"`
	Canceled  bool `json:"canceled"`
	Started   bool `json:"started"`
	Same      bool `json:"same"` // persisted fields equal the reported state at this snapshot
}

type StoreObs struct {
	Loaded bool       `json:"loaded"` // Load() succeeded
	Extra  int        `json:"extra"`
	Jobs   []StoreJob `json:"jobs"`
}

type LastObs struct {
	Op     string `json:"op"`
	P      int    `json:"p"`
	J      int    `json:"j"`
	T      int    `json:"t"`
	O      string `json:"o"`
	Res    string `json:"res"` // "ok" | "err" | "skip"
	Err    string `json:"err"` // error class
	New    int    `json:"new"` // index of the accepted job or 0
	Via    string `json:"via"`
	HTTP   int    `json:"http"`
	Bad    string `json:"bad"`
	V      int    `json:"v"`
	Forced bool   `json:"forced"`
}

type State struct {
	Now    int        `json:"now"`
	Phase  string     `json:"phase"`
	Quiet  bool       `json:"quiet"`
	Cfg    []CfgObs   `json:"cfg"`
	Jobs   []JobObs   `json:"jobs"`
	Pipes  []PipeObs  `json:"pipes"`
	Runs   [][]RunObs `json:"runs"`
	Stop   []StopObs  `json:"stop"`
	Ack    []AckObs   `json:"ack"`
	Extra  int        `json:"extra"`
	Store  StoreObs   `json:"store"`
	Logs   []bool     `json:"logs"`
	XLogs  int        `json:"xlogs"`
	Last   LastObs    `json:"last"`
	Shut   string     `json:"shut"` // "no" | "begun" | "returned"
	ShutAt int        `json:"shutAt"`
	Forced bool       `json:"forced"`
	Idle   int        `json:"idle"` // ms since the reported jobs/pipelines last changed
	Conf   ConfObs    `json:"conf"`
}

// ConfObs: marks the lines of a gated script (one model step per driver step): lib/conform.py and lib/impltrace.py compare the
// vocabulary of these lines with the specification
type ConfObs struct {
	Has bool `json:"has"`
}

type Event struct {
	K string `json:"k"`
	J int    `json:"j"`
	T int    `json:"t"`
	O string `json:"o"`
}

type Line struct {
	SID  string    `json:"sid"`
	Seq  int       `json:"seq"`
	Ev   Event     `json:"ev"`
	St   *State    `json:"st"`
	Vers []Version `json:"vers"`
}

// ---- harness-side job identity ----

type jobInfo struct {
	idx     int
	id      uuid.UUID
	ver     int
	p       int
	runners []*fakeRunner
	envOk   bool
}

type world struct {
	mu      sync.Mutex
	sc      *Script
	t0      time.Time
	out     *json.Encoder
	outFile *os.File
	seq     int
	st      State
	jobs    []*jobInfo
	byID    map[uuid.UUID]*jobInfo
	logsDir string
	// pending admission context: version/pipeline of the schedule call in progress
	curP   int
	curVer int
	curBad string
	dirty  bool // event lines were written since the last quiescent snapshot line
	gen    int  // runner generation (incremented by restart); events of older generations are muted
	// idle tracking
	gateFree   chan struct{} // closed at teardown: parked scheduler loops run freely
	staleStore bool
	jobsDigest string
	chgAt      int
	detail     map[uuid.UUID]string // last /job/detail JSON per job (for the faithful comparison)
	preDetail  map[uuid.UUID]string // set by a restart step: the details before the restart (nil otherwise)
}

// digest of the API-visible part of the vocabulary (to detect silent changes between lines)
func (w *world) digest() string {
	b, _ := json.Marshal([]interface{}{w.st.Jobs, w.st.Pipes, w.st.Store, w.st.Logs, w.st.Extra, w.st.XLogs})
	return string(b)
}

func (w *world) nowMs() int {
	return int(time.Since(w.t0) / time.Millisecond)
}

func clone(st *State) *State {
	b, _ := json.Marshal(st)
	var c State
	_ = json.Unmarshal(b, &c)
	return &c
}

// emit writes one trace line: event + full vocabulary. Caller holds w.mu.
func (w *world) emit(ev Event) {
	w.seq++
	switch ev.K {
	case "RunBegin", "RunEnd", "RunRefused", "RunnerCancel", "ShutdownRet":
		w.st.Quiet = false
		w.dirty = true
	default:
		w.dirty = false
	}
	w.st.Now = w.nowMs()
	l := Line{SID: w.sc.ID, Seq: w.seq, Ev: ev, St: &w.st}
	if ev.K == "Reset" {
		l.Vers = w.sc.Versions
	} else {
		l.Vers = []Version{}
	}
	if err := w.out.Encode(&l); err != nil {
		panic(err)
	}
}

// jobFor returns the harness identity of a job, registering it at first sight.
// The driver is sequential, so first sight order == acceptance order.
func (w *world) jobFor(id uuid.UUID) *jobInfo {
	if ji, ok := w.byID[id]; ok {
		return ji
	}
	ji := &jobInfo{idx: len(w.jobs) + 1, id: id, ver: w.curVer, p: w.curP}
	w.jobs = append(w.jobs, ji)
	w.byID[id] = ji
	nt := 0
	if ji.ver > 0 {
		nt = len(w.sc.Versions[ji.ver-1].Tasks)
	}
	epoch := 0
	if ji.p > 0 {
		epoch = w.st.Cfg[ji.p-1].Epoch
	}
	w.st.Jobs = append(w.st.Jobs, JobObs{P: ji.p, Ver: ji.ver, Epoch: epoch, AccAt: w.nowMs(), RetAt: w.nowMs(), Bad: w.curBad, Tasks: make([]TaskObs, nt), LastErr: "", JSONAgree: true})
	w.st.Runs = append(w.st.Runs, make([]RunObs, nt))
	for i := range w.st.Runs[ji.idx-1] {
		w.st.Runs[ji.idx-1][i].Outcome = "none"
		w.st.Runs[ji.idx-1][i].CmdOk = true
		w.st.Runs[ji.idx-1][i].EnvOk = true
	}
	w.st.Stop = append(w.st.Stop, StopObs{BegunBefore: make([]bool, nt), OpenBefore: make([]bool, nt)})
	w.st.Ack = append(w.st.Ack, AckObs{OkAtAck: make([]bool, nt), OpenAtAck: make([]bool, nt)})
	w.st.Logs = append(w.st.Logs, false)
	w.st.Store.Jobs = append(w.st.Store.Jobs, StoreJob{})
	return ji
}

func (w *world) taskIdx(ji *jobInfo, name string) int {
	if ji.ver == 0 {
		return 0
	}
	for i, t := range w.sc.Versions[ji.ver-1].Tasks {
		if t.Name == name {
			return i + 1
		}
	}
	return 0
}

func scriptText(ver int, name string) string {
	return "echo v" + itoa(ver) + ":" + name
}

func itoa(i int) string {
	b, _ := json.Marshal(i)
	return string(b)
}

// createTaskRunner is what the harness passes to NewPipelineRunner.
func (w *world) createTaskRunner(pr **prunner.PipelineRunner) func(j *prunner.PipelineJob) *fakeRunner {
	return func(j *prunner.PipelineJob) *fakeRunner {
		w.mu.Lock()
		defer w.mu.Unlock()
		ji := w.jobFor(j.ID)
		ji.envOk = ji.ver > 0 && j.Env["PV"] == "v"+itoa(ji.ver)
		f := newFakeRunner(w, ji)
		f.pr = pr
		f.gen = w.gen
		ji.runners = append(ji.runners, f)
		return f
	}
}

// executingNow reads the job through the public API at a runner observation point.
func (w *world) executingNow(f *fakeRunner) (bool, bool) {
	res := false
	if f.pr == nil || *f.pr == nil {
		return false, false
	}
	err := (*f.pr).ReadJob(f.job.id, func(j *prunner.PipelineJob) {
		res = j.Start != nil && !j.Completed && !j.Canceled
	})
	return res, err != nil
}

func (w *world) evRunBegin(f *fakeRunner, t *task.Task) {
	exec, gone := w.executingNow(f)
	w.mu.Lock()
	defer w.mu.Unlock()
	if f.gen != w.gen {
		return
	}
	ji := f.job
	ti := w.taskIdx(ji, t.Name)
	if ti == 0 {
		// a task the accepted definition does not have
		w.st.Jobs[ji.idx-1].ExtraTask++
		w.emit(Event{K: "RunBegin", J: ji.idx, T: 0})
		return
	}
	r := &w.st.Runs[ji.idx-1][ti-1]
	r.Begun++
	r.Open = true
	r.BegunAt = w.nowMs()
	r.ExecAtBegin = exec
	r.GoneAtBegin = gone
	spec := w.sc.Versions[ji.ver-1].Tasks[ti-1]
	if spec.Empty {
		r.CmdOk = len(t.Commands) == 0
	} else {
		r.CmdOk = len(t.Commands) == 1 && t.Commands[0] == scriptText(ji.ver, t.Name)
	}
	tv, _ := t.Env.Get("TV").(string)
	r.EnvOk = ji.envOk && tv == "v"+itoa(ji.ver)+":"+t.Name
	w.emit(Event{K: "RunBegin", J: ji.idx, T: ti})
}

func (w *world) evRunEnd(f *fakeRunner, t *task.Task, res string) {
	exec, gone := w.executingNow(f)
	w.mu.Lock()
	defer w.mu.Unlock()
	if f.gen != w.gen {
		return
	}
	ji := f.job
	ti := w.taskIdx(ji, t.Name)
	if ti == 0 {
		w.emit(Event{K: "RunEnd", J: ji.idx, T: 0, O: res})
		return
	}
	r := &w.st.Runs[ji.idx-1][ti-1]
	r.Open = false
	r.Outcome = res
	r.EndedAt = w.nowMs()
	r.ExecAtEnd = exec
	r.GoneAtEnd = gone
	w.emit(Event{K: "RunEnd", J: ji.idx, T: ti, O: res})
}

func (w *world) evRunRefused(f *fakeRunner, t *task.Task) {
	w.mu.Lock()
	defer w.mu.Unlock()
	if f.gen != w.gen {
		return
	}
	ji := f.job
	ti := w.taskIdx(ji, t.Name)
	if ti > 0 {
		w.st.Runs[ji.idx-1][ti-1].Refused++
	}
	w.emit(Event{K: "RunRefused", J: ji.idx, T: ti})
}

func (w *world) evRunnerCancel(f *fakeRunner, first bool) {
	w.mu.Lock()
	defer w.mu.Unlock()
	if f.gen != w.gen {
		return
	}
	ji := f.job
	s := &w.st.Stop[ji.idx-1]
	s.N++
	if s.N == 1 {
		s.At = w.nowMs()
		s.DuringShut = w.st.Shut == "begun"
		s.ByShutdown = s.DuringShut
		for i, r := range w.st.Runs[ji.idx-1] {
			s.BegunBefore[i] = r.Begun > 0
			s.OpenBefore[i] = r.Open
		}
	}
	w.emit(Event{K: "RunnerCancel", J: ji.idx})
}

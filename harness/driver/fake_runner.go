package driver

// fakeRunner: the task runner the harness injects through
// NewPipelineRunner(createTaskRunner). It follows the Run/Cancel contract of
// taskctl.TaskRunner (taskctl/runner.go) as far as the scheduler and the
// PipelineRunner can observe it, but blocks every task until the driver
// supplies an outcome. Every entry / exit / Cancel() is an observation point
// owned by the harness (properties' observe_at: "Run entry/exit of the task
// runner injected through NewPipelineRunner(createTaskRunner)").

import (
	"context"
	"errors"
	"sync"
	"time"

	"github.com/taskctl/taskctl/pkg/task"

	"github.com/Flowpack/prunner"
	"github.com/Flowpack/prunner/taskctl"
)

type outcome struct {
	kind string // "ok" | "fail"
}

type openRun struct {
	task    string
	release chan outcome
}

type fakeRunner struct {
	w   *world
	job *jobInfo // harness-side identity of the job this runner was created for
	pr  **prunner.PipelineRunner
	gen int

	gateCh chan struct{} // one token = one iteration of the scheduler loop (gated scripts)

	mu           sync.Mutex
	onTaskChange func(t *task.Task)
	ctx          context.Context
	cancel       context.CancelFunc
	canceling    bool
	wg           sync.WaitGroup
	open         map[string]*openRun
}

var _ taskctl.Runner = &fakeRunner{}

var errNotExit = errors.New("template: script:1: function \"nope\" not defined")

// an error text with characters that must survive persisting and reloading unchanged
var errExit1 = errors.New("exit status 1: 100% of /data used, %d left, \"quoted\" %s\nsecond line")

func newFakeRunner(w *world, ji *jobInfo) *fakeRunner {
	f := &fakeRunner{w: w, job: ji, open: map[string]*openRun{}, gateCh: make(chan struct{}, 1)}
	f.ctx, f.cancel = context.WithCancel(context.Background())
	return f
}

func (f *fakeRunner) SetOnTaskChange(fn func(t *task.Task)) {
	f.onTaskChange = fn
}

func (f *fakeRunner) notify(t *task.Task) {
	if f.onTaskChange != nil {
		f.onTaskChange(t)
	}
}

func (f *fakeRunner) Run(t *task.Task) error {
	f.wg.Add(1)
	defer f.wg.Done()

	if err := f.ctx.Err(); err != nil {
		// Same as TaskRunner.Run: nothing is executed, no callback.
		f.w.evRunRefused(f, t)
		return err
	}

	if len(t.Commands) == 0 {
		// TaskRunner: CompileTask yields no job for an empty script: Run
		// returns nil without any task-change callback.
		f.w.evRunBegin(f, t)
		f.w.evRunEnd(f, t, "ok")
		return nil
	}

	or := &openRun{task: t.Name, release: make(chan outcome, 1)}
	f.mu.Lock()
	f.open[t.Name] = or
	f.mu.Unlock()

	f.w.evRunBegin(f, t)
	f.w.touchLogs(f.job, t.Name)

	t.Start = time.Now()
	f.notify(t)

	var res string
	var err error
	select {
	case o := <-or.release:
		res = o.kind
	case <-f.ctx.Done():
		res = "canceled"
	}

	f.mu.Lock()
	delete(f.open, t.Name)
	f.mu.Unlock()

	switch res {
	case "ok":
		t.End = time.Now()
		f.notify(t)
	case "fail":
		t.ExitCode = 1
		if t.AllowFailure {
			// execute(): exit status of an allow_failure task: notify and
			// continue with the next command; at the end End is set.
			f.notify(t)
			t.End = time.Now()
			f.notify(t)
		} else {
			t.Errored = true
			t.Error = errExit1
			f.notify(t)
			err = errExit1
		}
	case "err":
		// an error that is not an exit status (e.g. the command could not be compiled, the output store failed): execute()
		// reports it as an errored task even for allow_failure tasks
		t.Errored = true
		t.Error = errNotExit
		f.notify(t)
		err = errNotExit
	case "canceled":
		t.Errored = true
		t.Error = context.Canceled
		f.notify(t)
		err = context.Canceled
	}
	if !t.Errored && !t.Skipped {
		t.ExitCode = 0
	}
	f.w.evRunEnd(f, t, res)
	return err
}

func (f *fakeRunner) Cancel() {
	f.mu.Lock()
	first := !f.canceling
	f.canceling = true
	f.mu.Unlock()
	f.w.evRunnerCancel(f, first)
	if first {
		f.cancel()
	}
	f.wg.Wait()
}

func (f *fakeRunner) Finish() {}

// deliver hands an outcome to the blocked Run of task name; false if no such Run is open.
func (f *fakeRunner) deliver(name string, kind string) bool {
	f.mu.Lock()
	or := f.open[name]
	f.mu.Unlock()
	if or == nil {
		return false
	}
	select {
	case or.release <- outcome{kind: kind}:
		return true
	default:
		return false
	}
}

func (f *fakeRunner) openTasks() []string {
	f.mu.Lock()
	defer f.mu.Unlock()
	var r []string
	for n := range f.open {
		r = append(r, n)
	}
	return r
}

// passGate is called (poll gate hook) after the pause of every iteration of the scheduler loop that uses this runner,
// before the loop looks at the stages again.
func (f *fakeRunner) passGate() {
	if !f.w.sc.Gated {
		return
	}
	select {
	case <-f.gateCh:
	case <-f.w.gateFree:
	}
}

// releaseGate lets the loop run one more iteration (if it is parked or when it gets to the gate).
func (f *fakeRunner) releaseGate() {
	select {
	case f.gateCh <- struct{}{}:
	default:
	}
}
